#!/usr/bin/env python3
"""Regenerates /verif/MANIFEST.json from the tables below (keeps it schema-valid)."""
import json, os, subprocess
ROOT = os.path.dirname(os.path.dirname(os.path.abspath(__file__)))

PURE = ("pure function of its input (program/term/text): no schedule, clock, I/O boundary, shared state or fault "
        "for a simulator to own; deciding it would be input generation against an oracle, a different technique")

NA = {
 "C01": "exact integer arithmetic over generated operands; " + PURE,
 "C02": "IEEE-754 results of float evaluation; " + PURE,
 "C03": "two evaluators compared on the same expression; " + PURE,
 "C04": "number comparison; " + PURE,
 "C05": "integer representation equivalence; " + PURE,
 "C06": "clause selection/indexing is a function of program and call; " + PURE,
 "C07": "compiler correctness against SLD resolution; " + PURE,
 "C08": "same answers across loading modes; " + PURE,
 "C10": "unification; " + PURE,
 "C11": "trail/backtracking restoration for generated goals; the fault-shaped part (state after an exception) is exercised under C12/C31; " + PURE,
 "C13": "standard order of terms; " + PURE,
 "C14": "sorting and pure collection libraries; " + PURE,
 "C15": "write/read round trip; " + PURE,
 "C16": "numeric literal conversion; " + PURE,
 "C17": "reader robustness is a function of the input text (chunked delivery is C18); " + PURE,
 "C20": "string/list equivalence; " + PURE,
 "C21": "atom identity within one machine (the concurrent part is C32); " + PURE,
 "C22": "atom/char builtins; " + PURE,
 "C23": "term inspection builtins; " + PURE,
 "C24": "termination/answers on cyclic terms are functions of the term graph; " + PURE,
 "C25": "all-solutions predicates; recovery of the lifted heap after an injected fault is part of the C30/C31 follow-up battery; " + PURE,
 "C27": "clp(Z) labeling; " + PURE,
 "C29": "toplevel output is a function of program and query text; " + PURE,
 "C34": "a size threshold of native recursion; native stack overflow aborts the process and cannot be injected or replayed as a simulated fault; " + PURE,
 "C35": "repeated loads are a deterministic state machine without I/O nondeterminism or faults in the statement; " + PURE,
 "C36": "format/2 output; " + PURE,
 "C37": "hashes and encodings; " + PURE,
 "C38": "delimited control/tabling answers; " + PURE,
 "C39": "DCG translation; " + PURE,
 "C41": "JSON conversion; " + PURE,
 "C42": "module resolution; " + PURE,
 "C43": "operator table as a deterministic state machine; " + PURE,
 "C44": "flag table; " + PURE,
 "C45": "read_term variable options; " + PURE,
 "C46": "clp(B); " + PURE,
 "C49": "integer relation builtins; " + PURE,
 "C50": "in-memory vs stream reading of the same text, both synchronous, no chunking seam in the statement; " + PURE,
 "C51": "CSV; " + PURE,
 "C53": "graph library; " + PURE,
 "C54": "reified conditionals; " + PURE,
 "C55": "quoting rules; " + PURE,
}

# id -> (category, text, note, technique, design_ref)
CLAIMED = {
 "C48": ("exploration",
         "Histories of 2..14 library(files) operations (file_exists, directory_exists, file_size, directory_files, make_directory, make_directory_path, delete_file, delete_directory, rename_file, file_copy, path_canonical, path_segments, ill-typed calls) over 8 names (ASCII, with a space, accented, CJK, nested two levels) and the scratch directory itself, each operation its own query, with an external actor (the harness through std::fs) writing files, making directories, removing and replacing entries behind Prolog's back before one operation in three. The real directory is read back through std::fs before and after every operation; an in-memory tree model refreshed from it predicts whether the predicate may succeed and what the directory must look like afterwards (names, kinds, file contents); values are compared with the OS (file length, directory listing as a set, std::fs::canonicalize, split/join of path segments).",
         "Where the documentation leaves error versus failure open only 'does not succeed and changes nothing' is asserted; renaming/copying directories or onto directories and the size reported for a directory are not asserted. Symbolic links and permissions are not exercised.",
         "deterministic simulation: seeded operation histories against the real file system with a seeded external actor between operations; in-memory tree model + std::fs read-back as oracle",
         "DESIGN.md §3 C48"),
 "C19": ("exploration",
         "A payload is written to a scratch file through 1..10 seeded output operations (put_char, put_code, put_byte, write, format ~s/~a, nl, flush_output; 20 characters incl. newline and 2/3/4-byte ones, all byte values in binary mode, 1 case in 12 straddling the reader's 8 KiB refill) and read back through 3..25 seeded operations (get_char, peek_char, get_code, peek_code, get_byte, peek_byte, get_n_chars, get_line_to_chars, at_end_of_stream, position and end_of_stream properties, position save and set_stream_position) under each eof_action. The read history runs twice: with full reads and with short reads injected below InputFileStream::read from a seeded schedule (max chunk 1..4096 bytes) - the legal behaviour of read(2) the tests never produce. Oracle: the file holds exactly the bytes written; a byte-buffer model with a cursor gives every result (peek == next get and consumes nothing; at_end_of_stream <=> next get is end-of-file; P == bytes consumed, L == newlines consumed; a restored position replays the same reads; eof_action error/eof_code honoured, reset: no error); the two read runs agree item by item.",
         "File streams (text and binary) with short reads, plus (1 case in 16, own machine per case) the in-memory user_input of the embedding API in both flavours (owned String -> byte cursor, &'static str -> static string) against the same read model; the memory user_output side is not driven. For end_of_stream(E) only E = past <=> an end-of-file was returned and E = at => no data left are asserted. get_n_chars/get_line_to_chars on a stream already past its end are not compared (not ISO predicates).",
         "deterministic simulation with fault injection: seeded write/read histories over a real file with seeded short reads below the stream; byte-buffer reference model + full-read/short-read differential",
         "DESIGN.md §3 C19"),
 "C47": ("exploration",
         "File contents are laid out as runs of 1/2/3/4-byte characters sized k*4096 characters +- 8 (the lazy step of library(pio)) or 8192 bytes +- 6 (the reader's refill), or small, with a marker character sprinkled at run borders; a grammar is drawn from a family of eight (consume everything, prefix then ..., count, suffix, every position of a character by backtracking, member, throw after n characters, seq(A),seq(A)). It runs three times: with phrase/2 over the full character list, with phrase_from_file/3, and with phrase_from_file/3 while short reads are injected below the stream from a seeded schedule (max chunk 1..8191 bytes). Oracle (differential): the three runs give the same solutions, failure or exception.",
         "The grammars are not modelled: the oracle is the same grammar over the same text delivered three ways. A stream left open after phrase_from_file/3 is counted as a probe only.",
         "deterministic simulation with fault injection: seeded file layouts around the lazy-step and buffer boundaries, seeded short reads below the stream; phrase/2-over-full-text differential",
         "DESIGN.md §3 C47"),
 "C26": ("exploration",
         "A case fixes a multiset of 2..7 operations over three variables and acyclic terms of depth <= 2 (dif(S,T); S = T as binding, aliasing or structure unification; freeze(V, mark); when(Cond, mark) with nonvar/ground conditions joined by , and ;). The scheduler draws 5..8 orders of the multiset (seeded permutations plus constraints-first and bindings-first). Each order runs as one conjunction with a position mark after every operation, followed by 2..5 probes (further bindings tried inside \\+ \\+, their wake-ups carried out). Oracle: a reference constraint store (mgu with occurs check; a dif pair is violated when identical, entailed when not unifiable, pending otherwise; monotone freeze/when conditions). Per order: success/failure, final bindings, the segment of the log in which every suspended goal wakes (before the position mark of the enabling operation: 'as soon as') and that it wakes once, and outcome plus wake-ups of every probe (the remaining constraints, semantically); therefore all orders agree with each other. Marks are backtrackable, so wake-ups inside undone bindings (\\=, dif's unifiability test) leave no trace.",
         "No fault is injected: the order of posts and bindings is the searched space (said plainly in DESIGN.md). Cases needing the occurs check are skipped; wake-ups of failing conjunctions/probes are not compared. Cases with a when/2 condition over >= 2 variables are keyed apart (recorded defect: such goals run once per variable).",
         "deterministic simulation: seeded schedules (orders) of constraint posts and binding events over suspended goals; reference constraint store as oracle",
         "DESIGN.md §3 C26"),
 "C12": ("exploration",
         "Goals are drawn from a control DSL (true, fail, marks, bindings of three variables, throw with atom / bc(Var) sharing a variable with catchers / error(_,_) / string / bignum balls, ten builtin errors, conjunction, disjunction, if-then-else, \\+, once, call, catch/3 with nine catcher shapes and DSL recovery goals, setup_call_cleanup/3 with marks as setup and cleanup), nesting depth <= 5. Each goal runs to completion inside findall/3 on the real machine and on a reference interpreter (innermost active catch whose catcher unifies with a copy of the ball; a catch is not active for its own continuation; bindings since the catch undone; recovery continues normally). Compared: solutions, uncaught ball (builtin errors: shape error(Formal, Context) and ISO kind of Formal), the order of ordinary marks, cleanup count == completed setup count per setup_call_cleanup, and that every assertz done alongside a mark is visible. Fault configuration (1 run in 2): the goal is run again with an interrupt injected at a seeded instruction (an exception at a point the program did not choose); then: no crash/hang, no cleanup twice, at most one cleanup lost, the goal re-run unfaulted gives exactly its first result, and a follow-up query gives the fresh-machine answer.",
         "Trusts the reference interpreter (0 disagreements on ~16 000 goals per quick run outside the one recorded defect). The instant at which a cleanup runs is not asserted, only its count once all choice points are gone. Cut is exercised through once/1, if-then-else and \\+ (no bare ! in the DSL).",
         "deterministic simulation: seeded control-DSL goals against a reference interpreter, with an interrupt injected at a seeded instruction as the unchosen exception; re-run and fresh-machine follow-up as consistency oracle",
         "DESIGN.md §3 C12"),
 "C09": ("exploration",
         "Interleavings of cursors (partially consumed calls of dynamic predicates with unbound / bound / partially bound first arguments, calls through a rule body into a second dynamic predicate, clause/2, re-entrant retract/1, once/1, \\+) and writers (assertz, asserta, rule assertion, retract once, retractall, abolish, throw) are drawn from the seed and realised on one machine as a conjunction `op1,...,opn,fail` whose choice points are resumed LIFO; every cursor answer is logged by side effect. The log, the final database read back through clause/2 and through fresh calls must equal a reference interpreter over an MVCC list model (clause = (birth, death); a call opened at generation g sees birth <= g < death in list order; asserta front / assertz back; retract removes the first visible match and is re-entrant over its own snapshot). One run in four injects an interrupt at a seeded instruction of the history (crash point): then the log must be a prefix of the model's log and the database one of the states the model passes through at that log length. Histories that leave what the statement fixes (a modified clause/2 cursor, a re-entrant retract meeting a clause someone else removed) are only checked for crashes. Seeded sampling of an open space of histories.",
         "Trusts the MVCC reference interpreter (validated: 0 disagreements on ~20 000 non-hazard histories per quick run after the three repairs) and the LIFO realisation of interleavings (a cursor can only be resumed after everything opened later is exhausted). Histories that touch an index bucket under an open indexed cursor, or asserta into a bucket after a retraction in it, are keyed apart because two recorded defects live there (known_findings.json).",
         "deterministic simulation: seeded interleavings of database cursors and writers (LIFO-realised) with an injected interrupt as crash point; MVCC reference model as history oracle",
         "DESIGN.md §3 C09"),
 "C52": ("exploration",
         "Seeded histories of random/1, maybe/0 and random_integer/3 calls after set_random(seed(S)) with S over the whole integer range; each history runs as one conjunction, again on the same machine, on a second machine with another history, and split over separate queries with unrelated (interrupted) work in between. Per call the range / failure / error conditions are checked inside Prolog with exact integers; per history the value sequences must be identical in all four executions.",
         "The generator is a per-Machine field: concurrent machines share nothing, so the thread variant of the design is not run. Statistical quality of the generator is not a property here.",
         "deterministic simulation: the simulator owns the entropy source (seed), replays call histories across machines, histories and injected interrupts",
         "DESIGN.md §3 C52"),
 "C32": ("exploration",
         "Real OS threads interning atoms through the real AtomTable/arcu code, with exactly one thread runnable at a time: a baton-passing scheduler parks every thread at 11 yield sites hooked into AtomTable::build_with / Atom::as_ptr / AtomTable::new and picks the next one from the case's explicit choice list (uniform random) or PCT priorities; the table starts with a 64..4096-byte block so that growth and both RCU replaces happen repeatedly. Oracle after every operation and at the end: text<->atom is a bijection over everything any thread obtained, every atom reads back the text it was interned with (immediately, later from other threads, and at the end), one table for all threads, no panic, no deadlock, all threads finish within the step budget. Seeded sampling of schedules; the schedule of a failure is stored as data and replays exactly.",
         "Interleavings are explored at the hooked yield sites under sequential consistency; weak-memory effects and preemption inside arcu are not modelled. shuttle/loom are unsuitable here (arcu's thread_local epoch counters).",
         "deterministic simulation: seeded/PCT thread schedules over real threads serialised by a baton scheduler at hooked yield points; bijection + text-stability history oracle",
         "DESIGN.md §3 C32"),
 "C40": ("fault_enumeration",
         "call_with_inference_limit/3 is the system's own preemption timer over its logical inference clock; the limit L is swept over every value from 0 to the goal's completion threshold + 5 (cap 160), i.e. the timer fires at every inference of the goal, for 29 library goals and seeded compositions (conjunction, disjunction, negation, if-then-else, nested limits). Answers and R values are observed through the query iterator. Relations checked: determinism (ascending sweep on one machine vs shuffled sweep on a second machine with a different history), faithfulness (solutions are a prefix of the goal's own solutions; R in {true, !, inference_limit_exceeded}; ! and inference_limit_exceeded only last; no inference_limit_exceeded => all solutions; exceptions pass through), monotonicity in L, constant nesting overhead over an (a,m) grid, fresh-machine follow-up afterwards.",
         "Only implementation-independent relations are asserted (no absolute inference counts). For goals that themselves contain an inner limit, only determinism and result-shape are asserted (the documentation says only the last limit is in power). Goals needing more than 160 inferences are checked up to the cap.",
         "deterministic simulation: sweep of the system's own step-budget timer over every inference of seeded goals; relational oracles across limits, machines and histories",
         "DESIGN.md §3 C40"),
 "C30": ("fault_enumeration",
         "The allocator's verdict is hooked in InnerHeap::grow: the k-th growth attempt after arming fails (one-shot), under production, small-initial and exact-fit growth policies (exact-fit makes every allocation site a growth attempt) inside guarded allocations. Position k is sampled over the unfaulted run's attempts (biased to first/last), for 20 workloads x 3 sizes. Oracle: no panic/abort/hang; the query ends with error(resource_error(memory), _) (caught by the goal's catch/3 or escaping), never with its normal answer or another ball; the follow-up battery then gives fresh-machine answers; canaries intact. Failure sites are keyed by the crate functions above grow() in a captured backtrace, library catch-alls by the predicate that called the catching catch/3.",
         "Trusts that exact-fit growth inside a managed allocation exercises the same propagation paths as production doubling (re-run under production/small policies too); only Heap growth is failed (not the stack, arena or Vec allocations); bursts of consecutive failures are out of the stated quantifier and not injected.",
         "deterministic simulation with fault injection: k-th heap-growth failure under exact-fit/small/production growth policies, fresh-machine differential follow-up",
         "DESIGN.md §3 C30"),
 "C31": ("fault_enumeration",
         "The instruction clock hooked into both dispatch loops raises the real INTERRUPT flag at instruction n and forces the poll there; the crate's own check_for_interrupt/throw/unwind code runs. Thorough enumerates every n (up to 25000) of every workload at its small size and of the textual goals, then samples the larger sizes; quick is a seeded sample. Oracle: no panic/hang, the query ends with error('$interrupt_thrown', _) (caught by the goal's catch/3 or escaping), never with its normal answer or another ball, and the 20-query follow-up battery then gives fresh-machine answers. Library catch-all sites that swallow the ball are identified by the predicate that called the catching catch/3 (hook in '$get_ball').",
         "Trusts: forcing the poll at a chosen boundary models production's every-256-instructions poll with history-dependent phase; the workload library (20 goals x 3 sizes + 13 textual goals) as 'a set of workloads'; follow-up battery as 'later goals compute correct results'. The context argument of the ball is not compared (library predicates re-throw with their own context).",
         "deterministic simulation with fault injection: interrupt at the n-th dispatched instruction, enumerated/sampled, fresh-machine differential follow-up",
         "DESIGN.md §3 C31"),
 "C18": ("exploration",
         "The real CharReader runs over a simulated byte source whose partition of the input into reads is drawn from the seed (biased to cut inside multi-byte sequences and around the 8 KiB refill size), with peek/read/put-back/raw-read/consume operations interleaved. Every outcome is compared with a reference decoder built on std's UTF-8 validation and with the same operations under the trivial one-chunk schedule; panics are violations. Seeded sampling of an open space (bytes x partitions x operation orders).",
         "Trusts std::str::from_utf8 as the UTF-8 reference and the SimCharReader wrapper (feature-gated re-export). The end-to-end channel layer of DESIGN.md is exercised through C19's channel streams, not here.",
         "deterministic simulation: seeded read-partition schedules over a simulated byte source, reference decoder + one-chunk differential",
         "DESIGN.md §3 C18"),
 "C33": ("fault_enumeration",
         "Seeded sequences of the real Heap operations on a managed heap whose allocation carries a canary region past the logical capacity; under exact-fit growth the capacity equals what the operation reserved, so any write past the reservation hits the canary at every fill level; the k-th growth attempt is made to fail (one-shot and persistent). Plus machine-level runs of the workload library with all heaps guarded. Oracle: canary intact, byte_len <= byte_cap, bytes below the old length unchanged, read-back of what was written.",
         "Trusts the hook's managed allocation (feature-gated, in heap.rs) to model the production allocator; overflows larger than the guard region (256 B / 4 KiB) that skip it entirely are not seen.",
         "deterministic simulation with fault injection: exact-fit growth policy + canary guard + k-th growth failure over seeded heap-operation sequences",
         "DESIGN.md §3 C33"),
 "C28": ("exploration",
         "Seeded histories of run_query calls on one Machine (each consumed for a random prefix, then dropped; optionally an interrupt injected inside one next()) compared item by item with the answer stream of a fresh machine image, a log model for side effects, and findall/3 inside Prolog. Sampling, not enumeration: histories are an open space.",
         "Trusts the fork-of-pristine-image notion of 'fresh Machine', the 52-query pool as representative, and the canonical text form of Term.",
         "deterministic simulation: seeded query histories with cancellation and injected interrupts, differential against a fresh machine",
         "DESIGN.md §3 C28"),
}

def main():
    props = [json.loads(l)["id"] for l in open(os.path.join(ROOT, "properties.jsonl"))]
    hooks_commits = subprocess.run(["git", "-C", "/repo", "log", "--format=%H %s", "--grep=^verif_hooks:"],
                                   capture_output=True, text=True).stdout.strip().splitlines()
    checks = []
    for pid in props:
        if pid in CLAIMED:
            cat, text, note, tech, ref = CLAIMED[pid]
            checks.append({
                "property_id": pid,
                "quick_cmd": f"./verif check {pid} --tier quick",
                "thorough_cmd": f"./verif check {pid} --tier thorough",
                "evidence_file": f"/verif/evidence/{pid}.json",
                "replay_cmd_template": "./verif replay {path}",
                "engine": "scryer-sim",
                "level_claimed": {"category": cat, "text": text, "design_ref": ref},
                "level_note": note,
                "technique": tech,
            })
    na = [{"property_id": p, "reason": NA[p]} for p in props if p not in CLAIMED and p in NA]
    missing = [p for p in props if p not in CLAIMED and p not in NA]
    for p in missing:
        na.append({"property_id": p, "reason": "designed as a simulation check in DESIGN.md §3 but not built yet; not claimed"})
    m = {
        "version": 1,
        "setup_cmd": "./verif setup",
        "hooks": {
            "guard": "verif_hooks",
            "enable": "cargo feature: the simulator crate /verif/sim depends on scryer-prolog { path = \"/repo\", features = [\"verif_hooks\"] }",
            "baseline_off_cmd": "cd /repo && cargo nextest run --workspace --no-fail-fast --tool-config-file pb:/w/lib/nextest.toml --profile pb --test-threads 8 --offline",
            "source_commits": [l.split()[0] for l in hooks_commits][::-1],
            "add_only": True,
        },
        "engines": [{
            "name": "scryer-sim",
            "path": "/verif/sim",
            "serves_properties": sorted(CLAIMED),
            "kind_free_text": "deterministic simulator: fork-server workers running the real crate under seeded fault/schedule injection, python driver ./verif (known findings, minimisation, replay, evidence)",
        }],
        "checks": checks,
        "not_applicable": na,
        "notes": "Technique family: deterministic simulation with fault injection. See DESIGN.md. known_findings.json lists genuine defects recorded or fixed.",
    }
    json.dump(m, open(os.path.join(ROOT, "MANIFEST.json"), "w"), indent=1)
    print("claimed", len(checks), "not_applicable", len(na))

if __name__ == "__main__":
    main()
