//! scryer-sim: deterministic simulation workers for the /verif checks.
//!
//! Subcommands
//!   run <check> --seed S --from A --to B --tier quick|thorough [--sample-every N]
//!       fork-server: every batch of runs executes in a forked child of a pristine image;
//!       prints `R <json>` per run, `X <json>` per crashed/hung run, `D` when done.
//!   exec <case-file>        execute one explicit case in this process (fresh image);
//!                           prints `R <json>`; exit 1 iff a violation was found.
//!   gen <check> --seed S --idx I --tier T      print the case of a run
//!   shrink <case-file> <out-file> [--key K]    minimise a failing case (child processes)
//!   describe <check>        static description + run counts

mod checks;
mod detsched;
mod forkutil;
mod mach;
mod prng;
mod workloads;

use forkutil::{in_child, in_child_idle, write_all_fd, ChildEnd};

use checks::{Check, Tier};
use serde_json::{json, Value};
use std::io::Write;

fn arg_val(args: &[String], name: &str) -> Option<String> {
    args.iter()
        .position(|a| a == name)
        .and_then(|i| args.get(i + 1).cloned())
}

fn parse_tier(s: Option<String>) -> Tier {
    match s.as_deref() {
        Some("thorough") => Tier::Thorough,
        _ => Tier::Quick,
    }
}

fn main() {
    let args: Vec<String> = std::env::args().collect();
    if args.len() < 2 {
        eprintln!("usage: scryer-sim run|exec|gen|shrink|describe ...");
        std::process::exit(2);
    }
    // Page faults are very expensive (and serialised) in this VM: keep freed memory in the
    // process instead of returning it to the kernel.
    unsafe {
        libc::mallopt(libc::M_MMAP_THRESHOLD, 1 << 30);
        libc::mallopt(libc::M_TRIM_THRESHOLD, 1 << 30);
        libc::mallopt(libc::M_TOP_PAD, 64 << 20);
    }
    mach::install_panic_hook();
    let code = match args[1].as_str() {
        "run" => cmd_run(&args[2..]),
        "exec" => cmd_exec(&args[2..]),
        "gen" => cmd_gen(&args[2..]),
        "shrink" => cmd_shrink(&args[2..]),
        "describe" => cmd_describe(&args[2..]),
        "oracle" => cmd_oracle(&args[2..]),
        "query" => cmd_query(&args[2..]),
        "chan" => cmd_chan(&args[2..]),
        "mem" => {
            let mut m = mach::Mach::with_input_string(args[3].clone(), args[2] == "static");
            for q in &args[4..] {
                let r = m.run(q, 20);
                println!("{}\n   => {}", q, r.text());
            }
            0
        }
        _ => {
            eprintln!("unknown subcommand");
            2
        }
    };
    std::process::exit(code);
}

fn prepare_check(check: &mut Box<dyn Check>, args: &[String]) {
    let oracle: Option<Value> = arg_val(args, "--oracle")
        .and_then(|p| std::fs::read_to_string(p).ok())
        .and_then(|t| serde_json::from_str(&t).ok());
    match oracle {
        Some(o) => check.prepare(Some(&o)),
        None => {
            let o = check.make_oracle();
            check.prepare(if o.is_null() { None } else { Some(&o) })
        }
    }
}

fn cmd_query(args: &[String]) -> i32 {
    use scryer_prolog::verif_hooks as vh;
    let mut m = mach::Mach::new();
    let int_at: Option<u64> = arg_val(args, "--int").and_then(|s| s.parse().ok());
    let budget: Option<u64> = arg_val(args, "--budget").and_then(|s| s.parse().ok());
    let dump: Option<String> = arg_val(args, "--dump");
    let mut skip = false;
    for q in args {
        if skip {
            skip = false;
            continue;
        }
        if q == "--int" || q == "--budget" || q == "--dump" {
            skip = true;
            continue;
        }
        let t0 = vh::ticks();
        vh::set_catch_trace(true);
        let is_last = std::ptr::eq(q, args.last().unwrap());
        if let Some(b) = budget {
            vh::set_tick_budget(vh::ticks() + b);
            vh::set_p_trace(true);
        }
        let r = m.run_with(q, 50, |k| {
            if k == 0 && is_last {
                if let Some(n) = int_at {
                    vh::interrupt_at(vh::ticks() + n);
                }
            }
        });
        println!("{}\n   => {}   [{} ticks, interrupt fired at {}] caught by {:?} kept by {:?}", q, r.text(), vh::ticks() - t0, vh::interrupt_fired_at().saturating_sub(t0), vh::take_catch_trace(), vh::take_last_interrupt_catcher());
        if r.panic.as_deref().map(|p| p.contains("TickBudget")).unwrap_or(false) {
            if let Some((k, d)) = m.hang_site() {
                println!("   hang site: {k}{d}");
            }
        }
    }
    if let Some(d) = dump {
        let (a, b) = d.split_once("..").unwrap();
        let (a, b): (usize, usize) = (a.parse().unwrap(), b.parse().unwrap());
        for i in a..b {
            let mut t = vh::instr_text(m.machine(), i);
            t.truncate(400);
            println!("  {i} {} {t}", vh::predicate_at(m.machine(), i));
        }
    }
    0
}

/// debugging aid: `chan send:HEX | close | <query>` ... against a machine with channel input
fn cmd_chan(args: &[String]) -> i32 {
    use std::io::Write as _;
    let (mut m, tx) = mach::Mach::with_channel_input();
    let mut tx = Some(tx);
    for a in args {
        if let Some(hex) = a.strip_prefix("send:") {
            let bytes: Vec<u8> = (0..hex.len() / 2).filter_map(|i| u8::from_str_radix(&hex[2 * i..2 * i + 2], 16).ok()).collect();
            if let Some(t) = tx.as_mut() {
                let _ = t.write(&bytes);
            }
            println!("[sent {} bytes]", bytes.len());
        } else if a == "close" {
            tx = None;
            println!("[closed]");
        } else {
            let r = m.run(a, 20);
            println!("{}\n   => {}", a, r.text());
        }
    }
    0
}

fn cmd_oracle(args: &[String]) -> i32 {
    let mut check = get_check(&args[0]);
    println!("{}", check.make_oracle());
    0
}

fn get_check(id: &str) -> Box<dyn Check> {
    match checks::make(id) {
        Some(c) => c,
        None => {
            eprintln!("unknown check {id}");
            std::process::exit(2);
        }
    }
}

fn case_of(check: &mut dyn Check, seed: u64, idx: u64, tier: Tier) -> Value {
    let rs = prng::run_seed(seed, check.id(), idx);
    let mut rng = prng::Prng::new(rs);
    let body = check.gen(&mut rng, idx, tier);
    json!({"check": check.id(), "verif_seed": seed, "idx": idx, "run_seed": format!("{:016x}", rs), "case": body})
}

fn cmd_describe(args: &[String]) -> i32 {
    let check = get_check(&args[0]);
    let d = json!({
        "id": check.id(),
        "runs_quick": check.runs(Tier::Quick),
        "runs_thorough": check.runs(Tier::Thorough),
        "batch": check.batch(),
        "timeout_s": check.timeout_s(),
        "describe": check.describe(),
    });
    println!("{}", d);
    0
}

fn cmd_gen(args: &[String]) -> i32 {
    let mut check = get_check(&args[0]);
    let seed: u64 = arg_val(args, "--seed").and_then(|s| s.parse().ok()).unwrap_or(1);
    let tier = parse_tier(arg_val(args, "--tier"));
    let (from, to) = match arg_val(args, "--idx").and_then(|s| s.parse::<u64>().ok()) {
        Some(i) => (i, i + 1),
        None => (
            arg_val(args, "--from").and_then(|s| s.parse().ok()).unwrap_or(0),
            arg_val(args, "--to").and_then(|s| s.parse().ok()).unwrap_or(1),
        ),
    };
    // generation never depends on prepared state
    for idx in from..to {
        println!("{}", case_of(check.as_mut(), seed, idx, tier));
    }
    0
}

fn result_line(idx: u64, out: &checks::Outcome, case: Option<&Value>, with_transcript: bool) -> String {
    result_line_b(idx, idx, out, case, with_transcript)
}

fn result_line_b(idx: u64, batch_lo: u64, out: &checks::Outcome, case: Option<&Value>, with_transcript: bool) -> String {
    let mut j = out.to_json();
    j["idx"] = json!(idx);
    j["batch_lo"] = json!(batch_lo);
    if let Some(c) = case {
        j["case"] = c.clone();
    }
    if with_transcript {
        let mut t = out.transcript.clone();
        if t.len() > 1500 {
            t.truncate(1500);
            t.push_str("...");
        }
        j["transcript"] = json!(t);
    }
    format!("R {}", j)
}

fn cmd_exec(args: &[String]) -> i32 {
    let text = match std::fs::read_to_string(&args[0]) {
        Ok(t) => t,
        Err(e) => {
            eprintln!("cannot read {}: {e}", args[0]);
            return 2;
        }
    };
    let file: Value = match serde_json::from_str(&text) {
        Ok(v) => v,
        Err(e) => {
            eprintln!("bad json: {e}");
            return 2;
        }
    };
    let id = file["check"].as_str().unwrap_or("").to_string();
    let mut check = get_check(&id);
    prepare_check(&mut check, args);
    if let Some(pre) = file["prelude"].as_array() {
        for c in pre {
            let _ = check.exec(c);
        }
    }
    let out = check.exec(&file["case"]);
    println!("{}", result_line(file["idx"].as_u64().unwrap_or(0), &out, None, true));
    if out.violations.is_empty() {
        0
    } else {
        1
    }
}

// ---------------------------------------------------------------------------
// fork server
// ---------------------------------------------------------------------------

fn cmd_run(args: &[String]) -> i32 {
    let mut check = get_check(&args[0]);
    let seed: u64 = arg_val(args, "--seed").and_then(|s| s.parse().ok()).unwrap_or(1);
    let from: u64 = arg_val(args, "--from").and_then(|s| s.parse().ok()).unwrap_or(0);
    let to: u64 = arg_val(args, "--to").and_then(|s| s.parse().ok()).unwrap_or(1);
    let tier = parse_tier(arg_val(args, "--tier"));
    let sample_every: u64 = arg_val(args, "--sample-every").and_then(|s| s.parse().ok()).unwrap_or(0);
    let nofork = args.iter().any(|a| a == "--nofork");

    prepare_check(&mut check, args);
    let batch = check.batch().max(1);
    let timeout_ms = (check.timeout_s() * 1000.0) as i64;
    let stdout = std::io::stdout();

    let mut idx = from;
    while idx < to {
        let end = (idx + batch).min(to);
        let run_batch = |check: &mut Box<dyn Check>, fd: i32, lo: u64, hi: u64| {
            for i in lo..hi {
                write_all_fd(fd, format!("S {}\n", i).as_bytes());
                let case = case_of(check.as_mut(), seed, i, tier);
                let out = check.exec(&case["case"]);
                let sample = sample_every != 0 && i % sample_every == 0;
                let with_case = sample || !out.violations.is_empty();
                let line = result_line_b(i, lo, &out, if with_case { Some(&case) } else { None }, with_case);
                write_all_fd(fd, line.as_bytes());
                write_all_fd(fd, b"\n");
            }
        };
        if nofork {
            run_batch(&mut check, 1, idx, end);
            idx = end;
            continue;
        }
        let (buf, ended) = in_child_idle(timeout_ms * (end - idx) as i64, timeout_ms, |fd| run_batch(&mut check, fd, idx, end));
        // forward complete lines; find the last started run
        let text = String::from_utf8_lossy(&buf);
        let mut last_started: Option<u64> = None;
        let mut last_finished: Option<u64> = None;
        {
            let mut lock = stdout.lock();
            for line in text.lines() {
                if let Some(rest) = line.strip_prefix("S ") {
                    last_started = rest.trim().parse().ok();
                } else if line.starts_with("R ") {
                    // only forward lines that are complete JSON
                    if serde_json::from_str::<Value>(&line[2..]).is_ok() {
                        last_finished = last_started;
                        let _ = writeln!(lock, "{}", line);
                    }
                }
            }
        }
        match ended {
            ChildEnd::Ok => {
                idx = end;
            }
            ChildEnd::Crash(kind) => {
                let crashed = match (last_started, last_finished) {
                    (Some(s), Some(f)) if s == f => s + 1, // died between runs
                    (Some(s), _) => s,
                    (None, _) => idx,
                };
                let crashed = crashed.min(end - 1);
                let case = case_of(check.as_mut(), seed, crashed, tier);
                let j = json!({"idx": crashed, "batch_lo": idx, "kind": kind, "case": case});
                let mut lock = stdout.lock();
                let _ = writeln!(lock, "X {}", j);
                idx = crashed + 1;
            }
        }
    }
    println!("D");
    0
}

// ---------------------------------------------------------------------------
// shrinking (each candidate runs in a forked child of this process)
// ---------------------------------------------------------------------------

/// Execute a case in a child; returns the violation keys found (crash => "crash:<kind>").
fn keys_of(check: &mut Box<dyn Check>, prelude: &[Value], case: &Value, timeout_ms: i64) -> Vec<String> {
    let (buf, ended) = in_child(timeout_ms * (1 + prelude.len() as i64), |fd| {
        for c in prelude {
            let _ = check.exec(c);
        }
        let out = check.exec(case);
        let line = result_line(0, &out, None, false);
        write_all_fd(fd, line.as_bytes());
        write_all_fd(fd, b"\n");
    });
    let mut keys = vec![];
    let text = String::from_utf8_lossy(&buf);
    let mut got_result = false;
    for line in text.lines() {
        if let Some(rest) = line.strip_prefix("R ") {
            if let Ok(v) = serde_json::from_str::<Value>(rest) {
                got_result = true;
                if let Some(vs) = v["violations"].as_array() {
                    for x in vs {
                        keys.push(format!("{}|{}", x["class"].as_str().unwrap_or(""), x["key"].as_str().unwrap_or("")));
                    }
                }
            }
        }
    }
    if let ChildEnd::Crash(kind) = ended {
        if !got_result {
            keys.push(format!("crash|crash:{}", kind));
        }
    }
    keys
}

fn cmd_shrink(args: &[String]) -> i32 {
    let text = std::fs::read_to_string(&args[0]).expect("read case file");
    let mut file: Value = serde_json::from_str(&text).expect("json");
    let out_path = args[1].clone();
    let id = file["check"].as_str().unwrap_or("").to_string();
    let mut check = get_check(&id);
    prepare_check(&mut check, args);
    let timeout_ms = (check.timeout_s() * 1000.0) as i64;
    let budget: usize = arg_val(args, "--budget").and_then(|s| s.parse().ok()).unwrap_or(200);

    let mut prelude: Vec<Value> = file["prelude"].as_array().cloned().unwrap_or_default();
    let orig = keys_of(&mut check, &prelude, &file["case"], timeout_ms);
    let want: String = match arg_val(args, "--key") {
        Some(k) => k,
        None => match orig.first() {
            Some(k) => k.clone(),
            None => {
                eprintln!("case does not fail");
                std::fs::write(&out_path, serde_json::to_string_pretty(&file).unwrap()).unwrap();
                return 3;
            }
        },
    };
    // every candidate that still hangs costs a full watchdog period: keep those searches short
    let budget = if want.contains("crash:timeout") { budget.min(12) } else { budget };
    let mut cur = file["case"].clone();
    let mut spent = 0;
    let mut steps = 0;
    // 1. the prelude (earlier runs on the same machine image): none, then ddmin
    if !prelude.is_empty() {
        spent += 1;
        if keys_of(&mut check, &[], &cur, timeout_ms).iter().any(|k| *k == want) {
            prelude.clear();
            steps += 1;
        } else {
            'pre: loop {
                for cand in checks::shrink_list(&prelude) {
                    if spent >= budget {
                        break 'pre;
                    }
                    spent += 1;
                    if keys_of(&mut check, &cand, &cur, timeout_ms).iter().any(|k| *k == want) {
                        prelude = cand;
                        steps += 1;
                        continue 'pre;
                    }
                }
                break;
            }
        }
    }
    // 1b. shrink inside the remaining prelude cases
    'pin: loop {
        for pi in 0..prelude.len() {
            for cand in check.shrink(&prelude[pi]) {
                if spent >= budget {
                    break 'pin;
                }
                spent += 1;
                let mut p2 = prelude.clone();
                p2[pi] = cand;
                if keys_of(&mut check, &p2, &cur, timeout_ms).iter().any(|k| *k == want) {
                    prelude = p2;
                    steps += 1;
                    continue 'pin;
                }
            }
        }
        break;
    }
    // 2. the case itself
    'outer: loop {
        let cands = check.shrink(&cur);
        for cand in cands {
            if spent >= budget {
                break 'outer;
            }
            spent += 1;
            let keys = keys_of(&mut check, &prelude, &cand, timeout_ms);
            if keys.iter().any(|k| *k == want) {
                cur = cand;
                steps += 1;
                continue 'outer;
            }
        }
        break;
    }
    file["prelude"] = json!(prelude);
    file["case"] = cur;
    file["minimised"] = json!({"steps": steps, "candidates_tried": spent, "key": want});
    std::fs::write(&out_path, serde_json::to_string_pretty(&file).unwrap()).unwrap();
    println!("shrunk steps={} tried={}", steps, spent);
    0
}
