% helper predicates for the verification harness (loaded into user)
:- use_module(library(lists)).
:- use_module(library(between)).
:- use_module(library(dif)).
:- use_module(library(freeze)).
:- use_module(library(iso_ext)).
:- dynamic(lg/1).

vh_count(N, N) :- !.
vh_count(I, N) :- I < N, I1 is I + 1, vh_count(I1, N).

vh_nat(0).
vh_nat(N) :- vh_nat(M), N is M + 1.

vh_throw_after(L, K) :- member(X, L), ( X == K -> throw(reached(K)) ; true ).
