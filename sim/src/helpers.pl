% helper predicates for the verification harness (loaded into user)
:- use_module(library(lists)).
:- use_module(library(between)).
:- use_module(library(dif)).
:- use_module(library(freeze)).
:- use_module(library(iso_ext)).
:- use_module(library(assoc)).
:- use_module(library(charsio)).
:- use_module(library(format)).
:- use_module(library(dcgs)).
:- use_module(library(pairs)).
:- dynamic(lg/1).
:- dynamic(w_fact/2).

vh_count(N, N) :- !.
vh_count(I, N) :- I < N, I1 is I + 1, vh_count(I1, N).

vh_nat(0).
vh_nat(N) :- vh_nat(M), N is M + 1.

vh_throw_after(L, K) :- member(X, L), ( X == K -> throw(reached(K)) ; true ).

% ---------------------------------------------------------------------------
% workload library W (no catch-all inside; every workload is deterministic)
% ---------------------------------------------------------------------------

w_list(N, R) :- numlist(1, N, L), reverse(L, L1), append(L, L1, L2), sum_list(L2, S), length(L2, Len), R = S-Len.

w_copy(N, R) :-
    length(Vs, N), T = t(Vs, "a string shared", f(Vs, g(X, X, Y), Y), [a-Vs|Vs]),
    copy_term(T, C), C = t(Ws, S, _, _), length(Ws, Len), length(S, SL), R = Len-SL.

w_findall(N, R) :-
    findall(X-L, (between(1, N, X), findall(Y, between(1, X, Y), L)), Ps),
    length(Ps, Len), w_last(Ps, _-LL), length(LL, R0), R = Len-R0.

w_bagof(N, R) :-
    numlist(1, N, L),
    bagof(K-Xs, bagof(X, (member(X, L), K is X mod 3), Xs), Groups),
    setof(M, X^(member(X, L), M is X mod 5), Ms),
    length(Groups, G), R = G-Ms.

w_assert(N, R) :-
    retractall(w_fact(_, _)),
    ( between(1, N, I), assertz(w_fact(I, f(I, "s", [I]))), fail ; true ),
    findall(I, w_fact(I, _), Is), length(Is, Len),
    ( retract(w_fact(1, _)) -> true ; true ),
    findall(I, w_fact(I, _), Js), length(Js, Len2),
    retractall(w_fact(_, _)),
    R = Len-Len2.

w_atoms(N, R) :-
    numlist(1, N, L),
    once(w_atoms_(L, 0, R)).
w_atoms_([], A, A).
w_atoms_([I|Is], A0, A) :-
    number_codes(I, Cs), atom_codes(At, [0'p, 0'r, 0'e, 0'f, 0'i, 0'x, 0'_|Cs]),
    atom_concat(At, '_suffix', At2), atom_length(At2, Len), atom_chars(At2, Chs),
    length(Chs, Len), sub_atom(At2, 0, 3, _, Sub), atom_length(Sub, L3),
    A1 is A0 + Len + L3, w_atoms_(Is, A1, A).

w_pstr(N, R) :-
    length(Xs, N), maplist(=(0'x), Xs), atom_codes(A, Xs), atom_chars(A, S0),
    append("prefix of a partial string ", S0, S1), append(S1, " and a suffix", S2),
    phrase(w_count_x(0, C), S2), length(S2, Len), R = C-Len.
w_count_x(C0, C) --> [Ch], !, { Ch == x -> C1 is C0 + 1 ; C1 = C0 }, w_count_x(C1, C).
w_count_x(C, C) --> [].

w_bignum(N, R) :- w_fact_(N, 1, F), R0 is F mod 1000007, G is gcd(F, 2^70 + 1), Q is F // (2^64), S is sign(Q), R = R0-G-S.
w_fact_(0, A, A) :- !.
w_fact_(N, A0, A) :- A1 is A0 * N, N1 is N - 1, w_fact_(N1, A1, A).

w_read(N, R) :-
    numlist(1, N, L),
    write_term_to_chars(foo(L, "text", 'Quoted atom', X, Y, X, 1.5, -3), [quoted(true)], Cs0),
    append(Cs0, ".", Cs), read_from_chars(Cs, T), T = foo(L2, S, _, _, _, _, F, _),
    length(L2, Len), length(S, SL), R = Len-SL-F.

w_write(N, R) :-
    numlist(1, N, L),
    phrase(format_("~w and ~a and ~d and ~q~n", [L, abc, 42, 'A b']), Cs1),
    number_chars(123456789012345678901234567890, Cs2),
    write_term_to_chars(g(L, Cs2), [], Cs3),
    length(Cs1, L1), length(Cs3, L3), R = L1-L3.

w_sort(N, R) :-
    numlist(1, N, L), maplist(w_key, L, Ps), keysort(Ps, Sorted), pairs_values(Sorted, Vs),
    sort(Vs, S1), reverse(S1, S2), length(S1, L1), length(S2, L2), Sorted = [K-_|_], R = K-L1-L2.
w_key(I, K-I) :- K is (I * 7919) mod 13.

w_catch(N, R) :-
    numlist(1, N, L),
    catch(w_thrower(L), big(L2, S), (length(L2, Len), length(S, SL), R = Len-SL)).
w_thrower(L) :- length(L, N), N >= 0, throw(big(L, "ball string")).

w_scc(N, R) :-
    numlist(1, N, L),
    findall(X, setup_call_cleanup(true, member(X, L), true), Xs),
    setup_call_cleanup(G = 1, once(member(_, L)), H = 2),
    length(Xs, Len), R = Len-G-H.

w_dif(N, R) :- once(w_dif_(N, R)).
w_dif_(N, R) :-
    length(Vs, N), w_dif_chain(Vs), maplist(w_freeze(Log), Vs),
    numlist(1, N, Vs), once(w_log_len(Log, R)).
w_last([X], X) :- !.
w_last([_|T], X) :- w_last(T, X).

w_dif_chain([]).
w_dif_chain([_]).
w_dif_chain([A,B|T]) :- dif(A, B), w_dif_chain([B|T]).
w_freeze(Log, V) :- freeze(V, w_log(Log, V)).
w_log(Log, V) :- var(Log), !, Log = [V|_].
w_log([_|T], V) :- w_log(T, V).
w_log_len(L, 0) :- var(L), !.
w_log_len([_|T], N) :- w_log_len(T, N0), N is N0 + 1.

% attributed variables bound by head unification: the rest of such a head runs in the
% machine's second dispatch loop (verify_attr_dispatch_loop)
w_attrhead(N, R) :- numlist(1, N, L), w_ah(L, 0, R).
w_ah([], S, S).
w_ah([K|Ks], S0, S) :-
    c31att:c31_mark(V, K), w_ah_head(V, K, T), T = f(_, _, Len),
    S1 is S0 + K + Len, w_ah(Ks, S1, S).
w_ah_head(g(X, [e0,e1,e2,e3,e4,e5,e6,e7,e8,e9,e10,e11,e12,e13,e14,e15,e16,e17,e18,e19,e20,e21,e22,e23,e24,e25,e26,e27,e28,e29,e30,e31,e32,e33,e34,e35,e36,e37,e38,e39], "some text", h(i(j), k(l(m), n(o, p(q, r(s)))))), X,
          f([1,2,3,4,5,6,7,8,9,10,11,12], g(h(i(j(k(l(m(n(o)))))))), 3)).

% C31: goals that go on after the handler of an interrupted workload, inside the same query
c31_memq(X, [Y|_], y) :- X == Y, !.
c31_memq(X, [_|T], R) :- !, c31_memq(X, T, R).
c31_memq(_, _, n).
c31_resid(W, B, K) :-
    call_residue_vars(( freeze(X, true), dif(Y, a), catch(W, B, true), freeze(Z, true) ), Vs),
    c31_memq(X, Vs, KX), c31_memq(Y, Vs, KY), c31_memq(Z, Vs, KZ),
    X = 1, Y = b, Z = 2, K = k(KX, KY, KZ).
% ... the protected goal first copies terms holding attributed variables that are older than
% the catch/3 (copy_term/2, findall/3, a ball, a global variable), then runs the workload
c31_attcopy(W, B, K) :-
    freeze(X, K1 = woke), dif(Y, Z), T = t(X, Y, Z, [X|_]),
    catch(( c31_copies(T), W ), B, true),
    X = 1, ( Y = Z -> K2 = same ; K2 = differ ),
    copy_term(f(Y, Z), K5, K6),
    K = k(K1, K2, K5, K6).
c31_copies(T) :-
    copy_term(T, C1), findall(T, member(_, [1,2]), L), catch(throw(c31ball(T)), c31ball(_), true),
    bb_b_put(c31t, T), bb_get(c31t, C2), C1 \== L, C2 \== [].
c31_after(W, B, K) :-
    freeze(X, K1 = woke), dif(Y, Z), bb_b_put(c31k, v(1)), L0 = [a,b,c],
    catch(W, B, true),
    X = 1, ( Y = Z -> K2 = same ; K2 = differ ), bb_get(c31k, K3),
    findall(E-E2, ( member(E, L0), member(E2, [1,2]) ), K4),
    copy_term(f(Y, Z), K5, K6),
    K = k(K1, K2, K3, K4, K5, K6).

w_assoc(N, R) :-
    numlist(1, N, L), empty_assoc(A0), foldl(w_put, L, A0, A),
    assoc_to_keys(A, Ks), length(Ks, Len), get_assoc(1, A, V), R = Len-V.
w_put(I, A0, A) :- K is (I * 31) mod 17, put_assoc(K, A0, v(I), A1), put_assoc(I, A1, w(I), A).

w_unify(N, R) :-
    length(As, N), length(Bs, N), T1 = f(As, g(Bs), "str", Z), T2 = f(Bs, g(As), S, S),
    T1 = T2, As = [first|_], w_last(Bs, last), length(Z, ZL), R = ZL.

w_arith(N, R) :- w_arith_(N, 0, 1 rdiv 3, R).
w_arith_(0, F, Q, F-Q) :- !.
w_arith_(N, F0, Q0, R) :-
    F1 is F0 + sqrt(N) * 1.5 - N / 7, Q1 is Q0 + 1 rdiv N, N1 is N - 1, w_arith_(N1, F1, Q1, R).

w_cwil(N, R) :-
    call_with_inference_limit(w_list(N, R0), 1000000, R1),
    once(call_with_inference_limit(vh_nat(_), 30, R2)),
    R = R0-R1-R2.

w_backtrack(N, R) :-
    numlist(1, N, L),
    findall(X-Y, (member(X, L), member(Y, L), X < Y, Y - X =:= 2), Ps),
    ( member(A, L), A > 3 -> true ; A = none ),
    \+ member(zzz, L),
    forall(member(Q, L), integer(Q)),
    length(Ps, Len), R = Len-A.

% the protected goal of setup_call_cleanup/3 throws; the cleanup then does real work while
% that exception is parked (its own catch-all is library code, not the workload's)
w_sccthrow(N, R) :-
    catch(setup_call_cleanup(true, (w_list(N, _), throw(w_ball(N))), w_list(N, _)), w_ball(M), R = caught(M)).

% a failed copy must leave its source term as it was: the handler compares the source with a
% term built the same way and re-throws the error only if they are still identical
w_copyguard(N, R) :-
    w_guard_term(N, T),
    catch(( copy_term(T, C), findall(T, member(_, [1,2]), Cs) ),
          error(Formal, Ctx),
          ( w_guard_term(N, T2), ( T == T2 -> throw(error(Formal, Ctx)) ; throw(source_term_damaged) ) )),
    C = t(Vs, _, _), length(Vs, L1), length(Cs, L2), R = L1-L2.
% (ground, so that two terms built the same way are identical)
w_guard_term(N, t(Vs, S, Ps)) :-
    S = "shared string of the guard term", numlist(1, N, Ns), maplist(w_guard_pair(S), Ns, Vs, Ps).
w_guard_pair(S, I, v(I), p(I, v(I), S, f(v(I), [I|S]))).

w_chars(N, R) :-
    numlist(1, N, L),
    maplist(w_num_chars, L, Css), append(Css, All), length(All, Len),
    atom_chars(A, All), atom_length(A, AL), number_chars(Num, "12345"), R = Len-AL-Num.
w_num_chars(I, Cs) :- number_chars(I, Cs).

% ---------------------------------------------------------------------------
% C40 helpers
% ---------------------------------------------------------------------------
:- dynamic(c40_fact/1).
c40_fact(a). c40_fact(b). c40_fact(c).

c40_rule(X) :- c40_fact(X), X \== b.
c40_rule(z).

c40_cutty(X) :- member(X, [1,2,3]), X >= 2, !.
c40_cutty(9).

c40_throw_at(N) :- vh_count(0, N), throw(c40_ball(N)).

c40_split([], [], []).
c40_split([R-W|Ps], [r(R)|Rs], Ws) :-
    (  R == inference_limit_exceeded -> Ws = Ws1 ; Ws = [w(W)|Ws1] ),
    c40_split(Ps, Rs, Ws1).

c40_run(G, W, L, Rs, Ws) :-
    findall(R-W, call_with_inference_limit(G, L, R), Ps),
    c40_split(Ps, Rs, Ws).

% least limit (up to Max) at which G completes without inference_limit_exceeded
c40_threshold(G, Max, T) :-
    between(0, Max, T),
    findall(R, call_with_inference_limit(G, T, R), Rs),
    \+ member(inference_limit_exceeded, Rs),
    !.

% ---------------------------------------------------------------------------
% C09 helpers
% ---------------------------------------------------------------------------
:- dynamic(p/1).
:- dynamic(q/2).
:- dynamic(c09_l/1).
c09_log(T) :- assertz(c09_l(T)).
c09_call(G) :- catch(G, error(existence_error(procedure, _), _), fail).

% ---------------------------------------------------------------------------
% C12 helpers
% ---------------------------------------------------------------------------
:- dynamic(c12_l/1).
c12_mark(I) :- bb_get(c12_log, L), bb_put(c12_log, [I|L]), assertz(c12_l(I)).
c12_reset :- bb_put(c12_log, []), retractall(c12_l(_)).
c12_marks(Ms, As) :- bb_get(c12_log, L), reverse(L, Ms), findall(M, c12_l(M), As).
% commit to the first solution with a real cut in a clause body
c12_first(G) :- call(G), !.
c12_run(T, G, R) :- catch((findall(T, G, L), R = sols(L)), B, R = ball(B)).

% ---------------------------------------------------------------------------
% C26 helpers (non-backtrackable mark log)
% ---------------------------------------------------------------------------
c26_reset :- bb_put(c26_log, []).
% the log is backtrackable: a goal woken by a binding that is undone again (inside \=, \+, or
% the unifiability test dif/2 makes) leaves no trace, as if the binding had never happened
c26_mark(I) :- bb_get(c26_log, L), bb_b_put(c26_log, [I|L]).
c26_marks(Ms) :- bb_get(c26_log, L), reverse(L, Ms).
% further bindings tried inside \+ \+; the wake-ups they cause are carried out of it
c26_probe(J, Vs, Ts) :-
    (  \+ \+ ( Vs = Ts, bb_get(c26_log, L0), bb_put(c26_tmp, L0) ) ->
       bb_get(c26_tmp, L1), bb_b_put(c26_log, [y(J)|L1])
    ;  c26_mark(n(J))
    ).

% ---------------------------------------------------------------------------
% C19 helpers: interpreters of write and read operation lists over one stream
% (characters travel as codes so that results print unambiguously)
% ---------------------------------------------------------------------------
c19_write(File, Type, WOps) :- open(File, write, S, [type(Type)]), c19_wops(WOps, S), close(S).
c19_wops([], _).
c19_wops([Op|Ops], S) :- c19_wop(Op, S), c19_wops(Ops, S).
c19_wop(pc(K), S) :- char_code(C, K), put_char(S, C).
c19_wop(pcode(K), S) :- put_code(S, K).
c19_wop(pb(B), S) :- put_byte(S, B).
c19_wop(wa(Ks), S) :- atom_codes(A, Ks), write(S, A).
c19_wop(fs(Ks), S) :- maplist(c19_code_char, Ks, Cs), format(S, "~s", [Cs]).
c19_wop(fa(Ks), S) :- atom_codes(A, Ks), format(S, "~a", [A]).
c19_wop(nl, S) :- nl(S).
c19_wop(flush, S) :- flush_output(S).
c19_code_char(K, C) :- char_code(C, K).
c19_char_code(C, K) :- ( C == end_of_file -> K = -1 ; char_code(C, K) ).

c19_read(File, Opts, ROps, Rs) :- open(File, read, S, Opts), c19_rops(ROps, S, [], Rs), close(S).
c19_rops([], _, _, []).
c19_rops([Op|Ops], S, Sv0, [R|Rs]) :-
    catch(c19_rop(Op, S, Sv0, Sv, R), error(E, _), (R = err(E), Sv = Sv0)),
    c19_rops(Ops, S, Sv, Rs).
c19_rop(gc, S, Sv, Sv, k(K)) :- get_char(S, C), c19_char_code(C, K).
c19_rop(pk, S, Sv, Sv, k(K)) :- peek_char(S, C), c19_char_code(C, K).
c19_rop(gcode, S, Sv, Sv, k(K)) :- get_code(S, K).
c19_rop(pcode, S, Sv, Sv, k(K)) :- peek_code(S, K).
c19_rop(gb, S, Sv, Sv, k(B)) :- get_byte(S, B).
c19_rop(pb, S, Sv, Sv, k(B)) :- peek_byte(S, B).
c19_rop(gn(N), S, Sv, Sv, cs(Ks)) :- get_n_chars(S, N, Cs), maplist(c19_char_code, Cs, Ks).
c19_rop(gl, S, Sv, Sv, cs(Ks)) :- get_line_to_chars(S, Cs, []), maplist(c19_char_code, Cs, Ks).
c19_rop(eos, S, Sv, Sv, b(B)) :- ( at_end_of_stream(S) -> B = 1 ; B = 0 ).
c19_rop(pos, S, Sv, Sv, p(P, L)) :- stream_property(S, position(position_and_lines_read(P, L))).
c19_rop(save, S, Sv, Sv1, saved) :- stream_property(S, position(Pos)), append(Sv, [Pos], Sv1).
c19_rop(restore(K), S, Sv, Sv, restored) :- nth0(K, Sv, Pos), set_stream_position(S, Pos).
c19_rop(eosp, S, Sv, Sv, e(E)) :- stream_property(S, end_of_stream(E)).

% ---------------------------------------------------------------------------
% C47 helpers: grammars run lazily over a file and over the full character list
% ---------------------------------------------------------------------------
:- use_module(library(pio)).
c47_expand([], []).
c47_expand([K-N|Ps], Cs) :- char_code(C, K), length(Run, N), maplist(=(C), Run), append(Run, Cs0, Cs), c47_expand(Ps, Cs0).

c47_g(all(L, Tail)) --> seq(Cs), c47_eos, { length(Cs, L), c47_tail(Cs, Tail) }.
c47_g(prefix(N, Ks)) --> { length(P, N) }, seq(P), { c47_tail(P, Ks) }, ... .
c47_g(count(K, N)) --> { char_code(C, K) }, c47_count(C, 0, N).
c47_g(suffix(Ks)) --> { maplist(c19_code_char, Ks, S) }, ..., seq(S).
c47_g(pos(K, L)) --> seq(A), [C], { char_code(C, K), length(A, L) }, ... .
c47_g(has(K)) --> ..., [C], { char_code(C, K) }, ... .
c47_g(throw_after(N)) --> { length(P, N) }, seq(P), { throw(c47_ball) }.
c47_g(twice(L)) --> seq(A), seq(A), c47_eos, { length(A, L) }.

c47_eos([], []).

c47_count(C, N0, N) --> [X], !, { X == C -> N1 is N0 + 1 ; N1 = N0 }, c47_count(C, N1, N).
c47_count(_, N, N) --> [].

c47_tail(Cs, Tail) :- length(Cs, L), ( L =< 6 -> Tail0 = Cs ; K is L - 6, length(Pre, K), append(Pre, Tail0, Cs) ), c47_codes(Tail0, Tail).
c47_codes([], []).
c47_codes([X|Xs], [K|Ks]) :- ( integer(X) -> K = X ; char_code(X, K) ), c47_codes(Xs, Ks).

c47_file(G, File, Opts, R) :-
    catch(( findall(G, phrase_from_file(c47_g(G), File, Opts), Gs) -> R = sols(Gs) ; R = no ), E, R = ex(E)).
c47_mem(G, Spec, R) :-
    c47_expand(Spec, Cs),
    catch(( findall(G, phrase(c47_g(G), Cs), Gs) -> R = sols(Gs) ; R = no ), E, R = ex(E)).
c47_open_streams(File, N) :- findall(S, stream_property(S, file_name(File)), Ss), length(Ss, N).

% C48 helper
c48_atom(Cs, A) :- atom_chars(A, Cs).
