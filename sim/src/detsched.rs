//! Baton-passing deterministic scheduler over real OS threads.
//!
//! Exactly one participant runs at a time. A participant hands the baton over at every
//! yield point (the hooks in the code under test call `Sched::yield_now`), when it finishes an
//! operation of the harness (`Sched::op_boundary`) and when it ends. Who runs next is decided
//! from an explicit choice list (`choices[i] % enabled.len()`), so that a schedule is data:
//! it can be stored in a replay file, truncated and shrunk. Beyond the list the lowest enabled
//! thread id runs (run to completion). A PCT-style mode uses priorities with change points.

use std::sync::{Arc, Condvar, Mutex};

#[derive(Clone, Copy, Debug, PartialEq, Eq)]
pub enum St {
    NotStarted,
    /// parked at (site, aux)
    Parked(u32, usize),
    Running,
    Finished,
}

#[derive(Clone, Debug)]
pub enum Mode {
    /// choices[i] % enabled
    Random(Vec<u32>),
    /// initial priorities (higher runs first) and (step, thread) demotions
    Pct { prio: Vec<u32>, changes: Vec<(u64, usize)> },
}

pub struct State {
    pub st: Vec<St>,
    pub current: Option<usize>,
    pub step: u64,
    pub mode: Mode,
    /// recorded decisions: (step, chosen thread, site of the yielding thread)
    pub trace: Vec<(u64, usize, u32)>,
    pub deadlock: bool,
    pub step_limit: u64,
    pub livelock: bool,
    /// decisions that had more than one enabled thread and did not pick the yielding one
    pub preemptions: u64,
    /// per site: how often a thread was preempted there
    pub site_hits: std::collections::BTreeMap<u32, u64>,
}

pub struct Sched {
    pub state: Mutex<State>,
    cv: Condvar,
    /// is the thread parked at (site, aux) allowed to proceed?
    enabled_fn: Box<dyn Fn(u32, usize) -> bool + Send + Sync>,
}

impl Sched {
    pub fn new(n: usize, mode: Mode, step_limit: u64, enabled_fn: Box<dyn Fn(u32, usize) -> bool + Send + Sync>) -> Arc<Sched> {
        Arc::new(Sched {
            state: Mutex::new(State {
                st: vec![St::NotStarted; n],
                current: None,
                step: 0,
                mode,
                trace: vec![],
                deadlock: false,
                step_limit,
                livelock: false,
                preemptions: 0,
                site_hits: Default::default(),
            }),
            cv: Condvar::new(),
            enabled_fn,
        })
    }

    fn pick(&self, s: &mut State, yielding: Option<usize>, site: u32) -> Option<usize> {
        let enabled: Vec<usize> = (0..s.st.len())
            .filter(|&i| match s.st[i] {
                St::NotStarted => true,
                St::Parked(site, aux) => (self.enabled_fn)(site, aux),
                St::Running => false,
                St::Finished => false,
            })
            .collect();
        if enabled.is_empty() {
            return None;
        }
        s.step += 1;
        let chosen = match &mut s.mode {
            Mode::Random(choices) => {
                let i = (s.step - 1) as usize;
                if i < choices.len() {
                    enabled[choices[i] as usize % enabled.len()]
                } else {
                    enabled[0]
                }
            }
            Mode::Pct { prio, changes } => {
                // demote at change points (later change points demote lower)
                let step = s.step;
                let nchg = changes.len();
                for (ci, (at, t)) in changes.iter().enumerate() {
                    if *at == step && *t < prio.len() {
                        prio[*t] = (nchg - ci) as u32;
                    }
                }
                *enabled.iter().max_by_key(|&&i| (prio.get(i).copied().unwrap_or(0), usize::MAX - i)).unwrap()
            }
        };
        if enabled.len() > 1 && Some(chosen) != yielding {
            s.preemptions += 1;
            *s.site_hits.entry(site).or_insert(0) += 1;
        }
        if s.trace.len() < 4000 {
            s.trace.push((s.step, chosen, site));
        }
        Some(chosen)
    }

    /// Called by a participant before it starts working: blocks until it is scheduled.
    pub fn start(&self, tid: usize) {
        let mut s = self.state.lock().unwrap();
        while s.current != Some(tid) {
            if s.deadlock || s.livelock {
                // let everyone run freely to the end so that the process can report
                break;
            }
            s = self.cv.wait(s).unwrap();
        }
        s.st[tid] = St::Running;
    }

    /// The first decision: made by the coordinator once all participants exist.
    pub fn kick(&self) {
        let mut s = self.state.lock().unwrap();
        let c = self.pick(&mut s, None, 0);
        s.current = c;
        self.cv.notify_all();
    }

    /// Hand the baton over at a yield point.
    pub fn yield_now(&self, tid: usize, site: u32, aux: usize) {
        let mut s = self.state.lock().unwrap();
        if s.deadlock || s.livelock {
            return;
        }
        if s.step >= s.step_limit {
            s.livelock = true;
            self.cv.notify_all();
            return;
        }
        s.st[tid] = St::Parked(site, aux);
        match self.pick(&mut s, Some(tid), site) {
            Some(next) => {
                s.current = Some(next);
                if next != tid {
                    self.cv.notify_all();
                    while s.current != Some(tid) {
                        if s.deadlock || s.livelock {
                            break;
                        }
                        s = self.cv.wait(s).unwrap();
                    }
                }
                s.st[tid] = St::Running;
            }
            None => {
                // nobody (not even this thread) may proceed
                s.deadlock = true;
                s.st[tid] = St::Running;
                self.cv.notify_all();
            }
        }
    }

    /// The participant is done.
    pub fn finish(&self, tid: usize) {
        let mut s = self.state.lock().unwrap();
        s.st[tid] = St::Finished;
        if s.deadlock || s.livelock {
            self.cv.notify_all();
            return;
        }
        if s.st.iter().all(|x| *x == St::Finished) {
            s.current = None;
            self.cv.notify_all();
            return;
        }
        match self.pick(&mut s, None, 0) {
            Some(next) => {
                s.current = Some(next);
            }
            None => {
                s.deadlock = true;
            }
        }
        self.cv.notify_all();
    }
}
