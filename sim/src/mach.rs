//! Machine wrapper: panic capture, canonical answers, leak-on-panic.

use scryer_prolog::{LeafAnswer, Machine, MachineBuilder, Term};
use std::cell::RefCell;
use std::mem::ManuallyDrop;
use std::panic::{catch_unwind, AssertUnwindSafe};

use scryer_prolog::verif_hooks as vh;

thread_local! {
    static LAST_PANIC: RefCell<Option<PanicInfo>> = const { RefCell::new(None) };
}

#[derive(Clone, Debug)]
pub struct PanicInfo {
    pub file: String,
    pub line: u32,
    pub msg: String,
}

impl PanicInfo {
    pub fn text(&self) -> String {
        format!("{}:{}: {}", self.file, self.line, self.msg)
    }
}

pub fn install_panic_hook() {
    std::panic::set_hook(Box::new(|info| {
        let (file, line) = info
            .location()
            .map(|l| (l.file().to_string(), l.line()))
            .unwrap_or_default();
        let payload = info.payload();
        let msg = if let Some(s) = payload.downcast_ref::<&str>() {
            s.to_string()
        } else if let Some(s) = payload.downcast_ref::<String>() {
            s.clone()
        } else if payload.downcast_ref::<vh::TickBudgetExceeded>().is_some() {
            "TickBudgetExceeded".to_string()
        } else {
            "<non-string panic payload>".to_string()
        };
        if msg.contains("unsafe precondition") || std::env::var("VERIF_PANIC_TRACE").is_ok() {
            eprintln!("PANIC at {}:{}: {}", file, line, msg);
            if std::env::var("VERIF_PANIC_TRACE").is_ok() {
                let bt = std::backtrace::Backtrace::force_capture().to_string();
                for l in bt.lines().filter(|l| l.contains("/repo/src") || l.contains("scryer")) {
                    eprintln!("    {}", l.trim());
                }
            }
        }
        LAST_PANIC.with(|p| {
            let mut p = p.borrow_mut();
            // keep the first panic of a run (a second one is usually a consequence)
            if p.is_none() {
                *p = Some(PanicInfo { file, line, msg });
            }
        });
    }));
}

pub fn take_panic() -> Option<PanicInfo> {
    LAST_PANIC.with(|p| p.borrow_mut().take())
}

/// Run `f`, turning a panic into `Err(PanicInfo)`.
pub fn guarded<R>(f: impl FnOnce() -> R) -> Result<R, PanicInfo> {
    take_panic();
    match catch_unwind(AssertUnwindSafe(f)) {
        Ok(r) => Ok(r),
        Err(_) => Err(take_panic().unwrap_or(PanicInfo {
            file: "?".into(),
            line: 0,
            msg: "panic without hook info".into(),
        })),
    }
}

pub fn term_text(t: &Term) -> String {
    let mut s = String::new();
    write_term(t, &mut s);
    s
}

fn write_term(t: &Term, out: &mut String) {
    use std::fmt::Write;
    match t {
        Term::Integer(i) => write!(out, "{}", i).unwrap(),
        Term::Rational(r) => write!(out, "{}", r).unwrap(),
        Term::Float(f) => write!(out, "{:?}", f).unwrap(),
        Term::Atom(a) => write!(out, "{:?}", a).unwrap(),
        Term::String(s) => write!(out, "s{:?}", s).unwrap(),
        Term::List(l) => {
            out.push('[');
            for (i, x) in l.iter().enumerate() {
                if i > 0 {
                    out.push(',');
                }
                write_term(x, out);
            }
            out.push(']');
        }
        Term::Compound(f, args) => {
            write!(out, "{:?}(", f).unwrap();
            for (i, x) in args.iter().enumerate() {
                if i > 0 {
                    out.push(',');
                }
                write_term(x, out);
            }
            out.push(')');
        }
        Term::Var(v) => write!(out, "{}", v).unwrap(),
        _ => out.push_str("<?>"),
    }
}

/// One item of an answer stream, canonical text.
#[derive(Clone, Debug, PartialEq, Eq)]
pub enum Ans {
    True,
    False,
    /// bindings as `X=..;Y=..`
    Bind(String),
    /// `LeafAnswer::Exception` (a non-error ball)
    Exc(String),
    /// `Err(term)` (an `error/2` ball)
    Err(String),
}

impl Ans {
    pub fn text(&self) -> String {
        match self {
            Ans::True => "true".into(),
            Ans::False => "false".into(),
            Ans::Bind(b) => format!("{{{}}}", b),
            Ans::Exc(e) => format!("exception({})", e),
            Ans::Err(e) => format!("error({})", e),
        }
    }

    pub fn is_exception(&self) -> bool {
        matches!(self, Ans::Exc(_) | Ans::Err(_))
    }

    /// The ball text, if this item reports an exception.
    pub fn ball(&self) -> Option<&str> {
        match self {
            Ans::Exc(e) | Ans::Err(e) => Some(e),
            _ => None,
        }
    }
}

pub fn canon(item: Result<LeafAnswer, Term>) -> Ans {
    match item {
        Ok(LeafAnswer::True) => Ans::True,
        Ok(LeafAnswer::False) => Ans::False,
        Ok(LeafAnswer::Exception(t)) => Ans::Exc(term_text(&t)),
        Ok(LeafAnswer::LeafAnswer { bindings, .. }) => {
            let mut s = String::new();
            for (i, (k, v)) in bindings.iter().enumerate() {
                if i > 0 {
                    s.push(';');
                }
                s.push_str(k);
                s.push('=');
                write_term(v, &mut s);
            }
            Ans::Bind(s)
        }
        Err(t) => Ans::Err(term_text(&t)),
    }
}

/// Result of consuming (a prefix of) a query.
#[derive(Clone, Debug, PartialEq, Eq)]
pub struct QOut {
    pub items: Vec<Ans>,
    /// the iterator returned `None` after the items
    pub ended: bool,
    pub panic: Option<String>,
}

impl QOut {
    pub fn text(&self) -> String {
        let mut s: Vec<String> = self.items.iter().map(|a| a.text()).collect();
        if self.ended {
            s.push("END".into());
        }
        if let Some(p) = &self.panic {
            s.push(format!("PANIC[{}]", p));
        }
        s.join(" | ")
    }
}

pub struct Mach {
    m: Option<Box<Machine>>,
    pub queries: u64,
    pub poisoned: bool,
    /// the machine as a panic left it (never run again, never dropped; read-only diagnostics)
    corpse: Option<ManuallyDrop<Box<Machine>>>,
}

pub const HELPERS: &str = include_str!("helpers.pl");
pub const C31ATT: &str = include_str!("c31att.pl");

impl Mach {
    pub fn new() -> Mach {
        let mut m = Box::new(MachineBuilder::default().build());
        vh::set_machine_rng(&mut m, 0x5EED);
        m.load_module_string("c31att", C31ATT.to_string());
        m.load_module_string("verif_helpers", HELPERS.to_string());
        Mach {
            m: Some(m),
            queries: 0,
            poisoned: false,
            corpse: None,
        }
    }

    /// A machine whose `user_input` is the receiving end of a channel (the public
    /// `InputStreamConfig::channel()` seam); the harness keeps the sending end.
    pub fn with_channel_input() -> (Mach, scryer_prolog::UserInput) {
        let (tx, cfg) = scryer_prolog::InputStreamConfig::channel();
        let streams = scryer_prolog::StreamConfig::in_memory().with_user_input(cfg);
        let mut m = Box::new(MachineBuilder::default().with_streams(streams).build());
        vh::set_machine_rng(&mut m, 0x5EED);
        m.load_module_string("c31att", C31ATT.to_string());
        m.load_module_string("verif_helpers", HELPERS.to_string());
        (
            Mach {
                m: Some(m),
                queries: 0,
                poisoned: false,
                corpse: None,
            },
            tx,
        )
    }

    /// A machine whose `user_input` is an in-memory string (`InputStreamConfig::string`): an owned
    /// `String` becomes a byte-cursor stream, a `&'static str` a static-string stream.
    pub fn with_input_string(text: String, as_static: bool) -> Mach {
        let cfg = if as_static {
            let leaked: &'static str = Box::leak(text.into_boxed_str());
            scryer_prolog::InputStreamConfig::string(leaked)
        } else {
            scryer_prolog::InputStreamConfig::string(text)
        };
        let streams = scryer_prolog::StreamConfig::in_memory().with_user_input(cfg);
        let mut m = Box::new(MachineBuilder::default().with_streams(streams).build());
        vh::set_machine_rng(&mut m, 0x5EED);
        m.load_module_string("c31att", C31ATT.to_string());
        m.load_module_string("verif_helpers", HELPERS.to_string());
        Mach {
            m: Some(m),
            queries: 0,
            poisoned: false,
            corpse: None,
        }
    }

    pub fn machine(&mut self) -> &mut Machine {
        self.m.as_mut().expect("machine poisoned")
    }

    /// After a tick-budget panic: where the machine was looping. Returns (site key, detail):
    /// the key is the sorted set of predicates owning the last traced code addresses.
    pub fn hang_site(&self) -> Option<(String, String)> {
        let m = self.corpse.as_ref()?;
        let trace = vh::p_trace();
        if trace.is_empty() {
            return None;
        }
        let mut preds: Vec<String> = vec![];
        let mut detail = String::new();
        let mut cache: std::collections::BTreeMap<usize, String> = Default::default();
        // compress consecutive repeats
        let mut runs: Vec<(usize, usize)> = vec![];
        for a in trace.iter() {
            match runs.last_mut() {
                Some((x, n)) if *x == *a => *n += 1,
                _ => runs.push((*a, 1)),
            }
        }
        // the loop is what the tail of the trace shows: predicates of the last 64 addresses
        for a in trace.iter().rev().take(64) {
            let who = cache.entry(*a).or_insert_with(|| vh::predicate_at(m, *a)).clone();
            if !preds.contains(&who) {
                preds.push(who);
            }
        }
        let skip = runs.len().saturating_sub(40);
        for (a, n) in runs.iter().skip(skip) {
            let who = cache.entry(*a).or_insert_with(|| vh::predicate_at(m, *a)).clone();
            let mut t = vh::instr_text(m, *a);
            t.truncate(100);
            detail.push_str(&format!("\n      {a} x{n} {who} {t}"));
        }
        preds.sort();
        Some((preds.join("+"), detail))
    }

    pub fn alive(&self) -> bool {
        self.m.is_some() && !self.poisoned
    }

    /// Run `query`, take at most `take` items (`usize::MAX` = drain), then drop
    /// the iterator. `before_next(i)` runs before the i-th `next()` call.
    pub fn run(&mut self, query: &str, take: usize) -> QOut {
        self.run_with(query, take, |_| {})
    }

    pub fn run_with(
        &mut self,
        query: &str,
        take: usize,
        mut before_next: impl FnMut(usize),
    ) -> QOut {
        self.queries += 1;
        let mut out = QOut {
            items: vec![],
            ended: false,
            panic: None,
        };

        if self.m.is_none() {
            out.panic = Some("machine poisoned".into());
            return out;
        }

        let q = query.to_string();
        let mut mbox: Box<Machine> = self.m.take().unwrap();
        let machine: &mut Machine = &mut mbox;

        let mut panicked = None;
        let mut unprintable = false;

        match guarded(|| machine.run_query(q)) {
            Err(p) => panicked = Some(p),
            Ok(qs) => {
                let mut qs = ManuallyDrop::new(qs);
                let mut i = 0;

                while i < take {
                    before_next(i);
                    match guarded(|| qs.next()) {
                        // (an answer term the machine cannot even print — an atom that is not
                        // text — is the machine's failure, not the harness's)
                        Ok(Some(item)) => match guarded(|| canon(item)) {
                            Ok(a) => out.items.push(a),
                            Err(p) => {
                                unprintable = true;
                                panicked = Some(p);
                                break;
                            }
                        },
                        Ok(None) => {
                            out.ended = true;
                            break;
                        }
                        Err(p) => {
                            panicked = Some(p);
                            break;
                        }
                    }
                    i += 1;
                    if out.items.len() > 10_000 {
                        break;
                    }
                }

                if panicked.is_none() {
                    if let Err(p) = guarded(|| unsafe { ManuallyDrop::drop(&mut qs) }) {
                        panicked = Some(p);
                    }
                }
            }
        }

        if let Some(p) = panicked {
            out.panic = Some(if unprintable { format!("answer-unprintable: {}", p.text()) } else { p.text() });
            self.poisoned = true;
            // state is undefined after a panic; never run its destructors
            self.corpse = Some(ManuallyDrop::new(mbox));
        } else {
            self.m = Some(mbox);
        }

        out
    }

    /// Drain a query.
    pub fn all(&mut self, query: &str) -> QOut {
        self.run(query, usize::MAX)
    }
}

impl Drop for Mach {
    fn drop(&mut self) {
        if let Some(m) = self.m.take() {
            if guarded(move || drop(m)).is_err() {
                // ignore
            }
        }
    }
}

impl QOut {
    pub fn to_json(&self) -> serde_json::Value {
        let items: Vec<serde_json::Value> = self
            .items
            .iter()
            .map(|a| match a {
                Ans::True => serde_json::json!(["t"]),
                Ans::False => serde_json::json!(["f"]),
                Ans::Bind(b) => serde_json::json!(["b", b]),
                Ans::Exc(e) => serde_json::json!(["x", e]),
                Ans::Err(e) => serde_json::json!(["e", e]),
            })
            .collect();
        serde_json::json!({"items": items, "ended": self.ended, "panic": self.panic})
    }

    pub fn from_json(v: &serde_json::Value) -> QOut {
        let items = v["items"]
            .as_array()
            .map(|xs| {
                xs.iter()
                    .map(|x| {
                        let s = x[1].as_str().unwrap_or("").to_string();
                        match x[0].as_str().unwrap_or("") {
                            "t" => Ans::True,
                            "f" => Ans::False,
                            "b" => Ans::Bind(s),
                            "x" => Ans::Exc(s),
                            _ => Ans::Err(s),
                        }
                    })
                    .collect()
            })
            .unwrap_or_default();
        QOut {
            items,
            ended: v["ended"].as_bool().unwrap_or(false),
            panic: v["panic"].as_str().map(|s| s.to_string()),
        }
    }
}
