//! The fixed workload library W (Prolog side in helpers.pl) and the follow-up battery F.

use crate::prng::Prng;

/// (name, sizes on the grid)
pub const WORKLOADS: &[(&str, &[u64])] = &[
    ("w_list", &[5, 40, 200]),
    ("w_copy", &[3, 30, 150]),
    ("w_findall", &[3, 12, 30]),
    ("w_bagof", &[4, 15, 40]),
    ("w_assert", &[2, 8, 25]),
    ("w_atoms", &[2, 10, 40]),
    ("w_pstr", &[4, 40, 200]),
    ("w_bignum", &[5, 30, 120]),
    ("w_read", &[3, 20, 60]),
    ("w_write", &[3, 20, 60]),
    ("w_sort", &[4, 30, 100]),
    ("w_catch", &[3, 40, 200]),
    ("w_scc", &[3, 15, 50]),
    ("w_dif", &[2, 5, 10]),
    ("w_assoc", &[3, 12, 40]),
    ("w_unify", &[3, 40, 200]),
    ("w_arith", &[3, 30, 150]),
    ("w_cwil", &[3, 20, 60]),
    ("w_backtrack", &[4, 10, 25]),
    ("w_chars", &[3, 20, 80]),
    ("w_sccthrow", &[3, 20, 80]),
    ("w_copyguard", &[3, 20, 80]),
    ("w_attrhead", &[4, 25, 80]),
];

pub fn pick(rng: &mut Prng) -> (&'static str, u64) {
    let (w, sizes) = rng.pick(WORKLOADS);
    (w, *rng.pick(sizes))
}

pub fn goal(name: &str, size: u64) -> String {
    format!("{}({}, R)", name, size)
}

/// Follow-up battery F: fixed queries touching each subsystem. The first entry cleans up what
/// an aborted workload may have left in the database and is not compared.
pub const FOLLOWUP_CLEAN: &str = "retractall(w_fact(_, _)), retractall(lg(_)).";

pub const FOLLOWUP: &[&str] = &[
    "X = f(Y, \"abc\", [1,2,3]), Y = 1.",
    "findall(X-Y, (member(X, [1,2,3]), member(Y, [a,b])), L), length(L, N).",
    "length(L, 3), atom_chars(A, [x,y,z]), atom_length(A, N).",
    "X is 2^80 + 3 * 7 - 10 rdiv 4, Y is sqrt(16.0).",
    "catch(throw(my(Ball, \"s\")), my(B, S), true).",
    "catch(atom_length(_, _), error(E, _), true).",
    "assertz(w_fact(1, a)), assertz(w_fact(2, b)), findall(K-V, w_fact(K, V), L), retractall(w_fact(_, _)), \\+ w_fact(_, _).",
    "setup_call_cleanup(X = 1, member(Y, [a,b]), Z = done).",
    "freeze(V, W = woke), dif(V, 2), V = 1.",
    "call_with_inference_limit(vh_nat(_), 20, R).",
    "call_with_inference_limit(member(X, [1,2]), 1000, R).",
    "bagof(X-Y, member(X-Y, [1-a, 2-b, 1-c]), L).",
    "atom_chars(A, \"hello\"), atom_concat(A, ' there', B), sub_atom(B, 0, 5, _, S).",
    "phrase(format_(\"~w-~a\", [f(x), y]), Cs), read_from_chars(\"foo(Bar, baz).\", T).",
    "sort([c, a, b, a], S), keysort([b-1, a-2, b-0], K).",
    "copy_term(f(X, Y, X), C), X = 1.",
    "bb_put(vh_key, value(1)), bb_get(vh_key, V).",
    "w_list(30, R).",
    "w_findall(6, R).",
    "w_assert(5, R).",
];
