//! The one PRNG of a run. Everything a run decides is drawn from here.

#[derive(Clone, Debug)]
pub struct Prng {
    s: [u64; 4],
    pub draws: u64,
}

pub fn splitmix64(x: &mut u64) -> u64 {
    *x = x.wrapping_add(0x9E3779B97F4A7C15);
    let mut z = *x;
    z = (z ^ (z >> 30)).wrapping_mul(0xBF58476D1CE4E5B9);
    z = (z ^ (z >> 27)).wrapping_mul(0x94D049BB133111EB);
    z ^ (z >> 31)
}

pub fn fnv(s: &str) -> u64 {
    let mut h: u64 = 0xcbf29ce484222325;
    for b in s.bytes() {
        h ^= b as u64;
        h = h.wrapping_mul(0x100000001b3);
    }
    h
}

pub fn hash_bytes(h: &mut u64, bytes: &[u8]) {
    for b in bytes {
        *h ^= *b as u64;
        *h = h.wrapping_mul(0x100000001b3);
    }
}

/// Seed of run `idx` of check `check` under `VERIF_SEED = seed`.
pub fn run_seed(seed: u64, check: &str, idx: u64) -> u64 {
    let mut x = seed ^ fnv(check).rotate_left(17) ^ idx.wrapping_mul(0xD6E8FEB86659FD93);
    splitmix64(&mut x)
}

impl Prng {
    pub fn new(seed: u64) -> Self {
        let mut x = seed;
        let s = [
            splitmix64(&mut x),
            splitmix64(&mut x),
            splitmix64(&mut x),
            splitmix64(&mut x),
        ];
        Prng { s, draws: 0 }
    }

    pub fn next(&mut self) -> u64 {
        self.draws += 1;
        let r = self.s[1].wrapping_mul(5).rotate_left(7).wrapping_mul(9);
        let t = self.s[1] << 17;
        self.s[2] ^= self.s[0];
        self.s[3] ^= self.s[1];
        self.s[1] ^= self.s[2];
        self.s[0] ^= self.s[3];
        self.s[2] ^= t;
        self.s[3] = self.s[3].rotate_left(45);
        r
    }

    /// Uniform in `0..n` (n > 0).
    pub fn below(&mut self, n: u64) -> u64 {
        debug_assert!(n > 0);
        self.next() % n
    }

    /// Uniform in `lo..=hi`.
    pub fn range(&mut self, lo: u64, hi: u64) -> u64 {
        lo + self.below(hi - lo + 1)
    }

    pub fn chance(&mut self, num: u64, den: u64) -> bool {
        self.below(den) < num
    }

    pub fn pick<'a, T>(&mut self, xs: &'a [T]) -> &'a T {
        &xs[self.below(xs.len() as u64) as usize]
    }

    pub fn shuffle<T>(&mut self, xs: &mut [T]) {
        for i in (1..xs.len()).rev() {
            let j = self.below(i as u64 + 1) as usize;
            xs.swap(i, j);
        }
    }
}
