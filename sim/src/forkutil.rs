//! fork/pipe/poll helpers: run a closure in a forked child with a watchdog.

use std::io::Write;

pub fn write_all_fd(fd: i32, data: &[u8]) {
    let mut off = 0;
    while off < data.len() {
        let n = unsafe { libc::write(fd, data[off..].as_ptr() as *const libc::c_void, data.len() - off) };
        if n <= 0 {
            break;
        }
        off += n as usize;
    }
}

pub enum ChildEnd {
    Ok,
    Crash(String),
}

/// Fork a child running `f(write_fd)`; collect its output (lines) with a timeout.
pub fn in_child(timeout_ms: i64, f: impl FnOnce(i32)) -> (Vec<u8>, ChildEnd) {
    in_child_idle(timeout_ms, timeout_ms, f)
}

/// As `in_child`, with a progress watchdog: the child is also killed when it writes nothing for
/// `idle_ms` (every run writes a start and a result line, so this is a per-run limit). The
/// child's address space is capped so that a runaway allocation ends as a reported crash.
pub fn in_child_idle(timeout_ms: i64, idle_ms: i64, f: impl FnOnce(i32)) -> (Vec<u8>, ChildEnd) {
    let mut fds = [0i32; 2];
    unsafe {
        if libc::pipe(fds.as_mut_ptr()) != 0 {
            panic!("pipe failed");
        }
    }
    let _ = std::io::stdout().flush();
    let pid = unsafe { libc::fork() };
    if pid < 0 {
        panic!("fork failed");
    }
    if pid == 0 {
        unsafe {
            libc::close(fds[0]);
            let lim = libc::rlimit { rlim_cur: 4 << 30, rlim_max: 4 << 30 };
            libc::setrlimit(libc::RLIMIT_AS, &lim);
        }
        f(fds[1]);
        unsafe {
            libc::close(fds[1]);
            libc::_exit(0);
        }
    }
    unsafe { libc::close(fds[1]) };
    let mut buf = Vec::new();
    let mut tmp = [0u8; 65536];
    let start = std::time::Instant::now();
    let mut timed_out = false;
    let mut last_data = std::time::Instant::now();
    loop {
        let elapsed = start.elapsed().as_millis() as i64;
        let left = (timeout_ms - elapsed).min(idle_ms - last_data.elapsed().as_millis() as i64);
        if left <= 0 {
            timed_out = true;
            break;
        }
        let mut pfd = libc::pollfd { fd: fds[0], events: libc::POLLIN, revents: 0 };
        let r = unsafe { libc::poll(&mut pfd, 1, left.min(1000) as i32) };
        if r < 0 {
            continue;
        }
        if r == 0 {
            continue;
        }
        let n = unsafe { libc::read(fds[0], tmp.as_mut_ptr() as *mut libc::c_void, tmp.len()) };
        if n > 0 {
            buf.extend_from_slice(&tmp[..n as usize]);
            last_data = std::time::Instant::now();
        } else {
            break; // EOF or error
        }
    }
    unsafe { libc::close(fds[0]) };
    let mut status = 0i32;
    if timed_out {
        unsafe {
            libc::kill(pid, libc::SIGKILL);
            libc::waitpid(pid, &mut status, 0);
        }
        return (buf, ChildEnd::Crash("timeout".into()));
    }
    unsafe { libc::waitpid(pid, &mut status, 0) };
    if libc::WIFSIGNALED(status) {
        return (buf, ChildEnd::Crash(format!("signal {}", libc::WTERMSIG(status))));
    }
    if libc::WIFEXITED(status) && libc::WEXITSTATUS(status) != 0 {
        return (buf, ChildEnd::Crash(format!("exit {}", libc::WEXITSTATUS(status))));
    }
    (buf, ChildEnd::Ok)
}

