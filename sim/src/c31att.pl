% an attribute with a trivial verify_attributes/3, for workloads that bind attributed variables
:- module(c31att, [c31_mark/2]).
:- use_module(library(atts)).
:- attribute mark/1.
verify_attributes(_, _, []).
attribute_goals(V) --> { get_atts(V, mark(K)) }, [c31_mark(V, K)].
c31_mark(V, K) :- put_atts(V, mark(K)).
