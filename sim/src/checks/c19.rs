//! C19 — stream I/O round-trips and reports positions consistently.
//!
//! A case writes a payload to a scratch file through a seeded mix of put_char / put_code /
//! put_byte / write / format / nl / flush_output, then reads it back through a seeded history
//! of get_char, peek_char, get_code, peek_code, get_byte, peek_byte, get_n_chars,
//! get_line_to_chars, at_end_of_stream, position and end_of_stream properties, position save
//! and set_stream_position, past the end under each eof_action. The read history runs twice:
//! with the file reader serving full reads, and with **short reads** injected below the
//! stream (the legal behaviour of read(2) that the tests never produce), from a seeded
//! schedule. Oracle: a byte-buffer model with a cursor (what was written is what the file
//! holds and what is read; peek == next get and consumes nothing; at_end_of_stream <=> next
//! get gives end-of-file; P of position_and_lines_read == bytes consumed, L == newlines
//! consumed; a saved position restored later replays the same reads; eof_action honoured),
//! and the two read runs must agree item by item.

use super::{panic_key, Check, Outcome, Tier};
use crate::mach::{Ans, Mach};
use crate::prng::{hash_bytes, Prng};
use scryer_prolog::verif_hooks as vh;
use serde_json::{json, Value};

pub struct C19 {
    m: Option<Mach>,
    dir: String,
}

impl C19 {
    pub fn new() -> Self {
        C19 { m: None, dir: String::new() }
    }
}

const CHARS: &[u32] = &[
    'a' as u32, 'b' as u32, 'z' as u32, 'Q' as u32, ' ' as u32, '\n' as u32, '\n' as u32, '\t' as u32, '.' as u32, '0' as u32,
    0xE9, 0xDF, 0x20AC, 0x4E2D, 0x1F600, 0x10348, '(' as u32, '%' as u32, '\'' as u32, '"' as u32,
];

pub fn scratch_dir() -> String {
    let d = format!("/verif/scratch/{}", std::process::id());
    let _ = std::fs::create_dir_all(&d);
    d
}

fn codes_text(v: &[u32]) -> String {
    format!("[{}]", v.iter().map(|c| c.to_string()).collect::<Vec<_>>().join(","))
}

fn codes_of(v: &Value) -> Vec<u32> {
    v.as_array().map(|a| a.iter().filter_map(|x| x.as_u64()).map(|x| x as u32).collect()).unwrap_or_default()
}

fn utf8(codes: &[u32]) -> Vec<u8> {
    let s: String = codes.iter().filter_map(|c| char::from_u32(*c)).collect();
    s.into_bytes()
}

/// expected result of one read op; `None` = stop comparing from here on
#[derive(Debug, Clone, PartialEq)]
enum Exp {
    K(i64),
    Cs(Vec<i64>),
    B(i64),
    /// P, expected L
    P(u64, u64),
    Saved,
    Restored,
    /// end_of_stream property: (must be past, may be at)
    E { past: bool, at_end: bool },
    ErrPastEnd,
}

struct RModel {
    /// text mode: chars with their byte offsets; binary: bytes
    units: Vec<(i64, u64)>,
    total_bytes: u64,
    cur: usize,
    past: bool,
    lines: u64,
    saved: Vec<(usize, u64)>,
    eof_action: String,
}

impl RModel {
    fn pos_bytes(&self) -> u64 {
        if self.cur < self.units.len() {
            self.units[self.cur].1
        } else {
            self.total_bytes
        }
    }

    fn step(&mut self, op: &Value) -> Option<Exp> {
        let name = op["op"].as_str().unwrap_or("");
        let reading = matches!(name, "gc" | "pk" | "gcode" | "pcode" | "gb" | "pb" | "gn" | "gl");
        if reading && self.past {
            // get_n_chars/3 and get_line_to_chars/3 are not ISO predicates; what they do on a
            // stream that is already past its end is not fixed by the statement
            if matches!(name, "gn" | "gl") {
                return None;
            }
            return match self.eof_action.as_str() {
                "error" => Some(Exp::ErrPastEnd),
                "eof_code" => Some(Exp::K(-1)),
                // reset: only "no error" is asserted; what the stream then delivers is not fixed
                _ => None,
            };
        }
        match name {
            "gc" | "gcode" | "gb" => {
                if self.cur == self.units.len() {
                    self.past = true;
                    Some(Exp::K(-1))
                } else {
                    let k = self.units[self.cur].0;
                    self.cur += 1;
                    if k == 10 {
                        self.lines += 1;
                    }
                    Some(Exp::K(k))
                }
            }
            "pk" | "pcode" | "pb" => {
                if self.cur == self.units.len() {
                    Some(Exp::K(-1))
                } else {
                    Some(Exp::K(self.units[self.cur].0))
                }
            }
            "gn" => {
                let n = op["n"].as_u64().unwrap_or(1) as usize;
                let k = n.min(self.units.len() - self.cur);
                let cs: Vec<i64> = self.units[self.cur..self.cur + k].iter().map(|u| u.0).collect();
                self.lines += cs.iter().filter(|c| **c == 10).count() as u64;
                self.cur += k;
                Some(Exp::Cs(cs))
            }
            "gl" => {
                let mut cs = vec![];
                while self.cur < self.units.len() {
                    let k = self.units[self.cur].0;
                    self.cur += 1;
                    cs.push(k);
                    if k == 10 {
                        self.lines += 1;
                        break;
                    }
                }
                Some(Exp::Cs(cs))
            }
            "eos" => Some(Exp::B(if self.past || self.cur == self.units.len() { 1 } else { 0 })),
            "pos" => Some(Exp::P(self.pos_bytes(), self.lines)),
            "save" => {
                self.saved.push((self.cur, self.lines));
                Some(Exp::Saved)
            }
            "restore" => {
                let k = op["k"].as_u64().unwrap_or(0) as usize;
                if k >= self.saved.len() {
                    return None;
                }
                self.cur = self.saved[k].0;
                self.lines = self.saved[k].1;
                self.past = false;
                Some(Exp::Restored)
            }
            "eosp" => Some(Exp::E { past: self.past, at_end: self.cur == self.units.len() }),
            _ => None,
        }
    }
}

fn rop_text(op: &Value) -> String {
    match op["op"].as_str().unwrap_or("") {
        "gn" => format!("gn({})", op["n"].as_u64().unwrap_or(1)),
        "restore" => format!("restore({})", op["k"].as_u64().unwrap_or(0)),
        x => x.to_string(),
    }
}

fn wop_text(op: &Value) -> String {
    match op["op"].as_str().unwrap_or("") {
        "pc" => format!("pc({})", op["c"]),
        "pcode" => format!("pcode({})", op["c"]),
        "pb" => format!("pb({})", op["c"]),
        "wa" => format!("wa({})", codes_text(&codes_of(&op["cs"]))),
        "fs" => format!("fs({})", codes_text(&codes_of(&op["cs"]))),
        "fa" => format!("fa({})", codes_text(&codes_of(&op["cs"]))),
        "nl" => "nl".into(),
        _ => "flush".into(),
    }
}

/// the codes (text) or bytes (binary) a write plan emits
fn written(wops: &[Value]) -> Vec<u32> {
    let mut out = vec![];
    for op in wops {
        match op["op"].as_str().unwrap_or("") {
            "pc" | "pcode" | "pb" => out.push(op["c"].as_u64().unwrap_or(0) as u32),
            "wa" | "fs" | "fa" => out.extend(codes_of(&op["cs"])),
            "nl" => out.push(10),
            _ => {}
        }
    }
    out
}

fn parse_results(s: &str) -> Vec<String> {
    let s = s.trim();
    let inner = s.strip_prefix('[').and_then(|x| x.strip_suffix(']')).unwrap_or("");
    if inner.is_empty() {
        return vec![];
    }
    super::c40::split_top(inner, ',').into_iter().map(|x| x.trim().to_string()).collect()
}

fn exp_matches(e: &Exp, got: &str, lines_issue: &mut bool) -> bool {
    match e {
        Exp::K(k) => got == format!("k({k})"),
        Exp::Cs(cs) => got == format!("cs([{}])", cs.iter().map(|c| c.to_string()).collect::<Vec<_>>().join(",")) || (cs.is_empty() && got == "cs([])"),
        Exp::B(b) => got == format!("b({b})"),
        Exp::P(p, l) => {
            if got == format!("p({p},{l})") {
                true
            } else if got.starts_with(&format!("p({p},")) {
                *lines_issue = true;
                true
            } else {
                false
            }
        }
        Exp::Saved => got == "saved",
        Exp::Restored => got == "restored",
        Exp::E { past, at_end } => {
            if *past {
                got == "e(past)"
            } else {
                match got {
                    "e(past)" => false,
                    "e(at)" => *at_end,
                    "e(not)" => true,
                    _ => false,
                }
            }
        }
        Exp::ErrPastEnd => got.starts_with("err(permission_error(input,past_end_of_stream"),
    }
}

impl Check for C19 {
    fn id(&self) -> &'static str {
        "C19"
    }

    fn runs(&self, tier: Tier) -> u64 {
        match tier {
            Tier::Quick => 8_000,
            Tier::Thorough => 800_000,
        }
    }

    fn batch(&self) -> u64 {
        250
    }

    fn timeout_s(&self) -> f64 {
        15.0
    }

    fn prepare(&mut self, _oracle: Option<&Value>) {
        self.m = Some(Mach::new());
    }

    fn gen(&mut self, rng: &mut Prng, _idx: u64, _tier: Tier) -> Value {
        if rng.chance(1, 16) {
            // in-memory user_input of the embedding API (own machine per case)
            let cs: Vec<u32> = (0..rng.range(0, 40)).map(|_| *rng.pick(CHARS)).collect();
            let mut rops: Vec<Value> = vec![];
            for _ in 0..rng.range(3, 20) {
                let r = rng.below(100);
                rops.push(if r < 25 {
                    json!({"op": "gc"})
                } else if r < 42 {
                    json!({"op": "pk"})
                } else if r < 50 {
                    json!({"op": "gcode"})
                } else if r < 56 {
                    json!({"op": "pcode"})
                } else if r < 68 {
                    json!({"op": "gn", "n": rng.range(0, 9)})
                } else if r < 76 {
                    json!({"op": "gl"})
                } else if r < 86 {
                    json!({"op": "eos"})
                } else if r < 94 {
                    json!({"op": "pos"})
                } else {
                    json!({"op": "eosp"})
                });
            }
            return json!({"mem": if rng.chance(1, 2) { "static" } else { "owned" }, "codes": cs, "rops": rops, "eof_action": "eof_code"});
        }
        let binary = rng.chance(1, 4);
        let big = rng.chance(1, 12);
        // payload as a write plan
        let mut wops: Vec<Value> = vec![];
        if big {
            // straddle the 8 KiB refill of the reader with multi-byte characters
            let k = rng.below(8);
            let n = 8192 - k;
            let filler: Vec<u32> = (0..n).map(|i| if i % 61 == 60 { 10 } else { 'x' as u32 + (i % 3) as u32 }).collect();
            wops.push(json!({"op": if binary { "fs" } else { "fs" }, "cs": filler}));
        }
        let n_w = rng.range(1, 10);
        for _ in 0..n_w {
            let op = if binary {
                match rng.below(6) {
                    0 => json!({"op": "flush"}),
                    _ => json!({"op": "pb", "c": *rng.pick(&[0u32, 1, 10, 13, 65, 127, 128, 195, 169, 255, 240])}),
                }
            } else {
                match rng.below(10) {
                    0 | 1 => json!({"op": "pc", "c": *rng.pick(CHARS)}),
                    2 => json!({"op": "pcode", "c": *rng.pick(CHARS)}),
                    3 => json!({"op": "nl"}),
                    4 => json!({"op": "flush"}),
                    5 | 6 => {
                        let cs: Vec<u32> = (0..rng.range(1, 12)).map(|_| *rng.pick(CHARS)).collect();
                        json!({"op": "fs", "cs": cs})
                    }
                    7 => {
                        let cs: Vec<u32> = (0..rng.range(1, 8)).map(|_| *rng.pick(CHARS)).collect();
                        json!({"op": "fa", "cs": cs})
                    }
                    _ => {
                        let cs: Vec<u32> = (0..rng.range(1, 8)).map(|_| *rng.pick(CHARS)).collect();
                        json!({"op": "wa", "cs": cs})
                    }
                }
            };
            wops.push(op);
        }
        if big && binary {
            // a binary file is written byte by byte: replace the filler by bytes
            wops[0] = json!({"op": "flush"});
            for i in 0..300 {
                wops.push(json!({"op": "pb", "c": (i * 7 + 3) % 256}));
            }
        }
        // read history
        let total = written(&wops).len() as u64;
        let mut rops: Vec<Value> = vec![];
        let mut saves = 0u64;
        if big && !binary {
            rops.push(json!({"op": "gn", "n": 8192 - 12 - rng.below(6)}));
        }
        for _ in 0..rng.range(3, 25) {
            let r = rng.below(100);
            let op = if binary {
                if r < 40 {
                    json!({"op": "gb"})
                } else if r < 62 {
                    json!({"op": "pb"})
                } else if r < 72 {
                    json!({"op": "eos"})
                } else if r < 82 {
                    json!({"op": "pos"})
                } else if r < 88 {
                    saves += 1;
                    json!({"op": "save"})
                } else if r < 94 && saves > 0 {
                    json!({"op": "restore", "k": rng.below(saves)})
                } else {
                    json!({"op": "eosp"})
                }
            } else if r < 22 {
                json!({"op": "gc"})
            } else if r < 36 {
                json!({"op": "pk"})
            } else if r < 42 {
                json!({"op": "gcode"})
            } else if r < 47 {
                json!({"op": "pcode"})
            } else if r < 57 {
                let n = if rng.chance(1, 5) { total + rng.below(3) } else { rng.range(0, 9) };
                json!({"op": "gn", "n": n})
            } else if r < 63 {
                json!({"op": "gl"})
            } else if r < 72 {
                json!({"op": "eos"})
            } else if r < 82 {
                json!({"op": "pos"})
            } else if r < 88 {
                saves += 1;
                json!({"op": "save"})
            } else if r < 94 && saves > 0 {
                json!({"op": "restore", "k": rng.below(saves)})
            } else {
                json!({"op": "eosp"})
            };
            rops.push(op);
        }
        let eof_action = *rng.pick(&["error", "eof_code", "reset"]);
        json!({
            "binary": binary, "wops": wops, "rops": rops, "eof_action": eof_action,
            "short_state": rng.next() | 1, "short_max": *rng.pick(&[1u64, 2, 3, 5, 16, 64, 4096]),
        })
    }

    fn exec(&mut self, case: &Value) -> Outcome {
        if case["mem"].is_string() {
            return exec_mem(case);
        }
        let mut out = Outcome::default();
        let mut m = match self.m.take() {
            Some(m) if m.alive() => m,
            _ => Mach::new(),
        };
        if self.dir.is_empty() {
            self.dir = scratch_dir();
        }
        let file = format!("{}/c19.dat", self.dir);
        let binary = case["binary"].as_bool().unwrap_or(false);
        let wops = case["wops"].as_array().cloned().unwrap_or_default();
        let rops = case["rops"].as_array().cloned().unwrap_or_default();
        let eof_action = case["eof_action"].as_str().unwrap_or("eof_code").to_string();
        let ty = if binary { "binary" } else { "text" };
        let mut h = 0xcbf29ce484222325u64;

        // ---- write phase
        let wtxt: Vec<String> = wops.iter().map(wop_text).collect();
        let qw = format!("c19_write('{file}', {ty}, [{}]).", wtxt.join(","));
        hash_bytes(&mut h, qw.replace(&file, "F").as_bytes());
        let _ = std::fs::remove_file(&file);
        let rw = m.all(&qw);
        if let Some(p) = &rw.panic {
            out.violate("panic", panic_key(p), format!("`{}`: {p}", &qw[..qw.len().min(400)]));
            return out;
        }
        if !matches!(rw.items.first(), Some(Ans::True)) {
            out.violate("wrong-outcome", "write-phase-failed", format!("`{}` gave {}", &qw[..qw.len().min(400)], rw.text()));
            self.m = Some(m);
            return out;
        }
        let codes = written(&wops);
        let want_bytes: Vec<u8> = if binary { codes.iter().map(|c| *c as u8).collect() } else { utf8(&codes) };
        let on_disk = std::fs::read(&file).unwrap_or_default();
        if on_disk != want_bytes {
            let at = on_disk.iter().zip(want_bytes.iter()).position(|(a, b)| a != b).unwrap_or(on_disk.len().min(want_bytes.len()));
            out.violate("round-trip", "file-content-differs", format!("`{}`\n wrote {} bytes, expected {} bytes; first difference at byte {at}", &qw[..qw.len().min(600)], on_disk.len(), want_bytes.len()));
            self.m = Some(m);
            return out;
        }
        out.bump("bytes_written", want_bytes.len() as u64);

        // ---- model of the read history
        let units: Vec<(i64, u64)> = if binary {
            want_bytes.iter().enumerate().map(|(i, b)| (*b as i64, i as u64)).collect()
        } else {
            let mut off = 0u64;
            codes
                .iter()
                .map(|c| {
                    let o = off;
                    off += char::from_u32(*c).map(|ch| ch.len_utf8()).unwrap_or(1) as u64;
                    (*c as i64, o)
                })
                .collect()
        };
        let mut model = RModel { units, total_bytes: want_bytes.len() as u64, cur: 0, past: false, lines: 0, saved: vec![], eof_action: eof_action.clone() };
        let mut expect: Vec<Exp> = vec![];
        for op in rops.iter() {
            match model.step(op) {
                Some(e) => expect.push(e),
                None => break,
            }
        }
        let compared = expect.len();

        // ---- read phase, twice
        let rtxt: Vec<String> = rops.iter().map(rop_text).collect();
        let qr = format!("c19_read('{file}', [type({ty}), eof_action({eof_action}), reposition(true)], [{}], Rs).", rtxt.join(","));
        hash_bytes(&mut h, qr.replace(&file, "F").as_bytes());
        let mut results: Vec<Vec<String>> = vec![];
        for short in [false, true] {
            if short {
                vh::set_short_reads(case["short_state"].as_u64().unwrap_or(1) | 1, case["short_max"].as_u64().unwrap_or(3) as usize);
            }
            let t0 = vh::ticks();
            vh::set_tick_budget(t0 + 20_000_000);
            let r = m.all(&qr);
            vh::set_tick_budget(u64::MAX);
            out.bump("sim_ticks", vh::ticks() - t0);
            if short {
                let n = vh::short_reads_done();
                out.bump("fault.short_reads_served", n);
                if n > 0 {
                    out.nontrivial = true;
                }
                vh::set_short_reads(0, 0);
            }
            if let Some(p) = &r.panic {
                let class = if p.contains("TickBudgetExceeded") { "hang" } else { "panic" };
                out.violate(class, panic_key(p), format!("`{qw}` then `{qr}`{}: {p}", if short { " (short reads)" } else { "" }));
                return out;
            }
            let rs = match r.items.first() {
                Some(Ans::Bind(b)) => parse_results(b.replace('"', "").trim_start_matches("Rs=")),
                other => {
                    out.violate("wrong-outcome", "read-phase-failed", format!("`{}` then `{qr}`{} gave {:?}", &qw[..qw.len().min(300)], if short { " (short reads)" } else { "" }, other.map(|a| a.text())));
                    self.m = Some(m);
                    return out;
                }
            };
            results.push(rs);
        }
        hash_bytes(&mut h, results[0].join(",").as_bytes());
        out.hash = h;
        out.transcript = format!("{}\n{qr}\n => [{}]", &qw[..qw.len().min(300)], results[0].join(","));
        let ctx = format!("`{}`\n then `{qr}`", &qw[..qw.len().min(500)]);

        // differential: the short-read schedule must not be observable
        if results[0] != results[1] {
            let at = results[0].iter().zip(results[1].iter()).position(|(a, b)| a != b).unwrap_or(0);
            out.violate("short-read-visible", "results-differ-under-short-reads", format!("{ctx}\n operation {at} ({}) gives {} with full reads and {} with short reads (max chunk {})", rtxt.get(at).cloned().unwrap_or_default(), results[0].get(at).cloned().unwrap_or_default(), results[1].get(at).cloned().unwrap_or_default(), case["short_max"]));
            self.m = Some(m);
            return out;
        }
        // model
        let mut lines_issue = false;
        for (i, e) in expect.iter().enumerate() {
            let got = results[0].get(i).cloned().unwrap_or_default();
            if !exp_matches(e, &got, &mut lines_issue) {
                let class = match e {
                    Exp::P(..) => "position",
                    Exp::B(..) => "at-end-of-stream",
                    Exp::E { .. } => "end-of-stream-property",
                    Exp::ErrPastEnd => "eof-action",
                    _ => "read-back",
                };
                out.violate(class, format!("{}-differs", class), format!("{ctx}\n operation {i} ({}) gave {got}, the byte-buffer model gives {:?}\n all results [{}]", rtxt[i], e, results[0].join(",")));
                self.m = Some(m);
                return out;
            }
        }
        // reset: no error whatsoever
        if eof_action == "reset" {
            if let Some(i) = results[0].iter().position(|r| r.starts_with("err(")) {
                out.violate("eof-action", "error-under-eof-action-reset", format!("{ctx}\n operation {i} ({}) raised {}", rtxt[i], results[0][i]));
                self.m = Some(m);
                return out;
            }
        }
        if lines_issue {
            out.violate("line-count", "lines-read-ignores-character-reads", format!("{ctx}\n results [{}]: L of position_and_lines_read/2 does not count the newlines consumed", results[0].join(",")));
        }
        out.bump("read_ops_checked_against_model", compared as u64);
        if model.past {
            out.bump("histories_reading_past_the_end", 1);
        }
        self.m = Some(m);
        out
    }

    fn shrink(&self, case: &Value) -> Vec<Value> {
        let mut out = vec![];
        let wops = case["wops"].as_array().cloned().unwrap_or_default();
        let rops = case["rops"].as_array().cloned().unwrap_or_default();
        for r2 in super::shrink_list(&rops) {
            // keep restore indices valid
            let mut saves = 0u64;
            let ok = r2.iter().all(|o| {
                if o["op"] == "save" {
                    saves += 1;
                    true
                } else if o["op"] == "restore" {
                    o["k"].as_u64().unwrap_or(0) < saves
                } else {
                    true
                }
            });
            if ok {
                let mut c = case.clone();
                c["rops"] = json!(r2);
                out.push(c);
            }
        }
        for w2 in super::shrink_list(&wops) {
            let mut c = case.clone();
            c["wops"] = json!(w2);
            out.push(c);
        }
        if case["short_max"].as_u64().unwrap_or(0) > 1 {
            let mut c = case.clone();
            c["short_max"] = json!(1);
            out.push(c);
        }
        out
    }

    fn describe(&self) -> Value {
        json!({
            "real": ["whole Machine: open/4, close/1, put_char/put_code/put_byte/write/format/nl/flush_output, get_char/peek_char/get_code/peek_code/get_byte/peek_byte, get_n_chars/3, get_line_to_chars/3, at_end_of_stream/1, stream_property/2 (position, end_of_stream), set_stream_position/2 (streams.rs, system_calls.rs, char_reader.rs)", "the operating system's file (a scratch file under /verif/scratch)"],
            "stub": ["how many bytes each read() of the file returns (short-read schedule, hooked below InputFileStream::read)"],
            "rule": "payload written through 1..10 seeded output operations (20 characters incl. newline, 2/3/4-byte ones; bytes 0..255 in binary mode; 1 case in 12 straddles the 8 KiB reader refill) and read back through 3..25 seeded operations under each eof_action, once with full and once with short reads (max chunk 1..4096); distinct = hash of both queries and the results; non-trivial = at least one short read was served",
            "assumptions": [
                "P of position(position_and_lines_read(P, L)) is compared with the bytes consumed, L with the newlines consumed (reported under its own key)",
                "end_of_stream(E): only E = past <=> a read has returned end-of-file, and E = at => no data left, are asserted",
                "under eof_action(reset) only the absence of errors is asserted after the first end-of-file"
            ],
        })
    }
}


/// in-memory `user_input` (string configuration of the embedding API): same read model, one
/// machine per case, no file and no short reads
fn exec_mem(case: &Value) -> Outcome {
    let mut out = Outcome::default();
    let codes = codes_of(&case["codes"]);
    let text: String = codes.iter().filter_map(|c| char::from_u32(*c)).collect();
    let rops = case["rops"].as_array().cloned().unwrap_or_default();
    let as_static = case["mem"] == "static";
    let mut h = 0xcbf29ce484222325u64;
    let mut m = Mach::with_input_string(text.clone(), as_static);
    let mut off = 0u64;
    let units: Vec<(i64, u64)> = codes
        .iter()
        .map(|c| {
            let o = off;
            off += char::from_u32(*c).map(|ch| ch.len_utf8()).unwrap_or(1) as u64;
            (*c as i64, o)
        })
        .collect();
    let mut model = RModel { units, total_bytes: text.len() as u64, cur: 0, past: false, lines: 0, saved: vec![], eof_action: "eof_code".into() };
    let mut expect: Vec<Exp> = vec![];
    for op in rops.iter() {
        // what an in-memory stream does once it has reported end-of-file is not asserted
        if model.past {
            break;
        }
        match model.step(op) {
            Some(e) => expect.push(e),
            None => break,
        }
    }
    let rtxt: Vec<String> = rops.iter().map(rop_text).collect();
    let q = format!("c19_rops([{}], user_input, [], Rs).", rtxt.join(","));
    hash_bytes(&mut h, format!("{:?}{}", codes, q).as_bytes());
    vh::set_tick_budget(vh::ticks() + 20_000_000);
    let r = m.all(&q);
    vh::set_tick_budget(u64::MAX);
    out.bump("in_memory_input_cases", 1);
    let what = if as_static { "static-string user_input" } else { "owned-string user_input" };
    if let Some(p) = &r.panic {
        let class = if p.contains("TickBudgetExceeded") { "hang" } else { "panic" };
        out.violate(class, format!("mem:{}", panic_key(p)), format!("{what} {:?}: `{q}`: {p}", text));
        return out;
    }
    let rs = match r.items.first() {
        Some(Ans::Bind(b)) => parse_results(b.replace('"', "").trim_start_matches("Rs=")),
        other => {
            out.violate("wrong-outcome", "mem:read-phase-failed", format!("{what} {:?}: `{q}` gave {:?}", text, other.map(|a| a.text())));
            return out;
        }
    };
    hash_bytes(&mut h, rs.join(",").as_bytes());
    out.hash = h;
    out.transcript = format!("{what} {:?}\n{q}\n => [{}]", text, rs.join(","));
    let mut lines_issue = false;
    for (i, e) in expect.iter().enumerate() {
        let got = rs.get(i).cloned().unwrap_or_default();
        if !exp_matches(e, &got, &mut lines_issue) {
            out.violate("read-back", "mem:result-differs", format!("{what} {:?}\n `{q}`\n operation {i} ({}) gave {got}, the byte-buffer model gives {:?}\n all results [{}]", text, rtxt[i], e, rs.join(",")));
            return out;
        }
    }
    if lines_issue {
        out.violate("line-count", "lines-read-ignores-character-reads", format!("{what} {:?}\n `{q}`\n results [{}]", text, rs.join(",")));
    }
    out.bump("read_ops_checked_against_model", expect.len() as u64);
    out
}
