//! C40 — inference-limited execution is deterministic and faithful.
//!
//! `call_with_inference_limit/3` is the system's own preemption timer over its own logical
//! clock. Sweeping the limit L over 0..threshold+5 fires the timer at every inference of the
//! goal. Goals come from a fixed library and seeded compositions (conjunction, disjunction,
//! negation, if-then-else). All oracles are implementation-independent relations:
//! (a) determinism: the same (G, L) gives the same result in an ascending sweep on one machine
//!     and in a shuffled sweep on another machine with a different history;
//! (b) faithfulness: the witnesses are a prefix of G's own solution sequence, every R is
//!     true / ! / inference_limit_exceeded, `!` and `inference_limit_exceeded` only last, and a
//!     result without inference_limit_exceeded has all solutions;
//! (c) monotonicity in L: the solution prefix never shrinks and, once complete, stays the same;
//! (d) exceptions of G pass through unchanged once reached;
//! (e) nesting: thr(cwil(g(a),Big,_), g(m)) - thr((g(a), g(m))) is one constant over a grid;
//! (f) afterwards the follow-up battery gives fresh-machine answers.

use super::c31::{load_baselines, run_followup};
use super::{panic_key, Check, Outcome, Tier};
use crate::mach::{Ans, Mach, QOut};
use crate::prng::{hash_bytes, Prng};
use scryer_prolog::verif_hooks as vh;
use serde_json::{json, Value};

/// (goal template with $X as witness variable, finite solution sequence?)
const LIB: &[(&str, bool)] = &[
    ("true", true),
    ("fail", true),
    ("$X = 1", true),
    ("vh_count(0, 3), $X = done", true),
    ("vh_count(0, 12), $X = done", true),
    ("member($X, [a,b,c])", true),
    ("( $X = 1 ; $X = 2 ; $X = 3 )", true),
    ("between(1, 4, $X)", true),
    ("member($X, [1,2,3]), $X > 1", true),
    ("member($X, [1,2,3]), $X < 3", true),
    ("member(x, [a,b]), $X = no", true),
    ("c40_fact($X)", true),
    ("c40_rule($X)", true),
    ("c40_cutty($X)", true),
    ("once(member($X, [a,b]))", true),
    ("\\+ member(z, [a,b]), $X = ok", true),
    ("( member($X, [1,2]) -> true ; $X = none )", true),
    ("findall(Y, member(Y, [1,2,3]), $X)", true),
    ("append($X, _, [1,2])", true),
    ("length($X, 2)", true),
    ("$X is 2 + 3 * 4", true),
    ("atom_length(abc, $X)", true),
    ("c40_throw_at(4)", true),
    ("member($X, [1,2,3]), ( $X == 3 -> throw(third) ; true )", true),
    ("catch(c40_throw_at(2), c40_ball(N), $X = caught(N))", true),
    ("call_with_inference_limit(member($X, [a,b,c]), 30, _)", true),
    ("call_with_inference_limit(vh_nat($X), 12, _)", true),
    ("vh_nat($X)", false),
    ("repeat, $X = r", false),
];

const LMAX: u64 = 160;
const R_TRUE: &str = "\"true\"";
const R_CUT: &str = "\"!\"";
const R_EXC: &str = "\"inference_limit_exceeded\"";

pub struct C40 {
    m1: Option<Mach>,
    m2: Option<Mach>,
    followup: Vec<QOut>,
}

impl C40 {
    pub fn new() -> Self {
        C40 { m1: None, m2: None, followup: vec![] }
    }
}

fn inst(t: &str, x: &str) -> String {
    t.replace("$X", x)
}

/// split "[a,b,c]" at top-level commas
fn list_items(s: &str) -> Option<Vec<String>> {
    let s = s.trim();
    if s == "[]" {
        return Some(vec![]);
    }
    // strings print as s"..." : treat as one opaque item list of chars is not expected here
    let inner = s.strip_prefix('[')?.strip_suffix(']')?;
    let mut items = vec![];
    let mut depth = 0i32;
    let mut in_q = false;
    let mut esc = false;
    let mut cur = String::new();
    for c in inner.chars() {
        if in_q {
            cur.push(c);
            if esc {
                esc = false;
            } else if c == '\\' {
                esc = true;
            } else if c == '"' {
                in_q = false;
            }
            continue;
        }
        match c {
            '"' => {
                in_q = true;
                cur.push(c);
            }
            '(' | '[' => {
                depth += 1;
                cur.push(c);
            }
            ')' | ']' => {
                depth -= 1;
                cur.push(c);
            }
            ',' if depth == 0 => items.push(std::mem::take(&mut cur)),
            _ => cur.push(c),
        }
    }
    items.push(cur);
    Some(items)
}

#[derive(Clone, Debug, PartialEq)]
enum Res {
    /// (R values, witnesses)
    Lists(Vec<String>, Vec<String>),
    Ball(String),
}

fn binding<'a>(b: &'a str, var: &str) -> Option<&'a str> {
    // bindings are "E=..;Rs=..;Ws=.." (sorted by name); values here never contain ';' at top level
    for part in split_top(b, ';') {
        if let Some(v) = part.strip_prefix(&format!("{}=", var)) {
            // need a slice of b: recompute
            let start = b.find(&format!("{}={}", var, v)).unwrap() + var.len() + 1;
            return Some(&b[start..start + v.len()]);
        }
    }
    None
}

pub fn split_top(s: &str, sep: char) -> Vec<String> {
    let mut out = vec![];
    let mut depth = 0i32;
    let mut in_q = false;
    let mut esc = false;
    let mut cur = String::new();
    for c in s.chars() {
        if in_q {
            cur.push(c);
            if esc {
                esc = false;
            } else if c == '\\' {
                esc = true;
            } else if c == '"' {
                in_q = false;
            }
            continue;
        }
        match c {
            '"' => {
                in_q = true;
                cur.push(c);
            }
            '(' | '[' => {
                depth += 1;
                cur.push(c);
            }
            ')' | ']' => {
                depth -= 1;
                cur.push(c);
            }
            c if c == sep && depth == 0 => out.push(std::mem::take(&mut cur)),
            _ => cur.push(c),
        }
    }
    out.push(cur);
    out
}

/// bindings of one answer minus the variables in `drop`
fn witness_of(b: &str, drop: &[&str]) -> String {
    split_top(b, ';').into_iter().filter(|p| !drop.iter().any(|d| p.starts_with(&format!("{}=", d)))).collect::<Vec<_>>().join(";")
}

const MAX_ANSWERS: usize = 40;

/// Observe `call_with_inference_limit(G, L, R)` through the query iterator (the observable
/// the property names: answers and R values).
fn eval(m: &mut Mach, goal: &str, _wit: &str, l: u64) -> Result<Res, String> {
    let q = format!("call_with_inference_limit(({}), {}, R40).", goal, l);
    vh::set_tick_budget(vh::ticks() + 3_000_000);
    let r = m.run(&q, MAX_ANSWERS);
    vh::set_tick_budget(u64::MAX);
    if let Some(p) = &r.panic {
        return Err(p.clone());
    }
    let mut rs = vec![];
    let mut ws = vec![];
    for a in &r.items {
        match a {
            Ans::Bind(b) => {
                let rv = binding(b, "R40").unwrap_or("?").to_string();
                if rv != "\"inference_limit_exceeded\"" {
                    ws.push(witness_of(b, &["R40"]));
                }
                rs.push(rv);
            }
            Ans::False => {}
            Ans::True => rs.push("?true".into()),
            Ans::Exc(e) | Ans::Err(e) => return Ok(Res::Ball(e.clone())),
        }
    }
    if r.items.len() >= MAX_ANSWERS && !r.ended {
        rs.push("...".into());
    }
    Ok(Res::Lists(rs, ws))
}

/// The goal's own solutions through the same observable.
fn own_solutions(m: &mut Mach, goal: &str) -> Result<Option<Res>, String> {
    let q = format!("{}.", goal);
    vh::set_tick_budget(vh::ticks() + 3_000_000);
    let r = m.run(&q, MAX_ANSWERS);
    vh::set_tick_budget(u64::MAX);
    if let Some(p) = &r.panic {
        return Err(p.clone());
    }
    let mut ws = vec![];
    for a in &r.items {
        match a {
            Ans::Bind(b) => ws.push(b.clone()),
            Ans::True => ws.push(String::new()),
            Ans::False => {}
            Ans::Exc(e) | Ans::Err(e) => return Ok(Some(Res::Ball(e.clone()))),
        }
    }
    if r.items.len() >= MAX_ANSWERS && !r.ended {
        return Ok(None);
    }
    Ok(Some(Res::Lists(vec![], ws)))
}

impl Check for C40 {
    fn id(&self) -> &'static str {
        "C40"
    }

    fn runs(&self, tier: Tier) -> u64 {
        match tier {
            Tier::Quick => 320,
            Tier::Thorough => 6_000,
        }
    }

    fn batch(&self) -> u64 {
        20
    }

    fn timeout_s(&self) -> f64 {
        60.0
    }

    fn make_oracle(&mut self) -> Value {
        super::c31::make_baselines(&[])
    }

    fn prepare(&mut self, oracle: Option<&Value>) {
        let (_, f) = load_baselines(oracle);
        self.followup = f;
        self.m1 = Some(Mach::new());
        self.m2 = Some(Mach::new());
    }

    fn gen(&mut self, rng: &mut Prng, idx: u64, _tier: Tier) -> Value {
        if idx % 16 == 7 {
            // full (inner limit x outer limit) matrix for one nested goal
            return json!({"kind": "nestgrid", "a": rng.range(0, 8), "m": rng.range(0, 8)});
        }
        if idx % 16 == 15 {
            // nesting grid
            let a: Vec<u64> = vec![rng.range(0, 4), rng.range(5, 12)];
            let m: Vec<u64> = vec![rng.range(0, 3), rng.range(4, 9), rng.range(10, 20)];
            return json!({"kind": "nest", "a": a, "m": m});
        }
        if (idx as usize) < LIB.len() {
            let (t, fin) = LIB[idx as usize];
            return json!({"kind": "sweep", "goal": inst(t, "X1"), "wit": "X1", "finite": fin});
        }
        // compositions of two or three library goals
        let pick = |rng: &mut Prng, x: &str| -> (String, bool) {
            let (t, fin) = *rng.pick(LIB);
            (inst(t, x), fin)
        };
        let (g1, f1) = pick(rng, "X1");
        let (g2, f2) = pick(rng, "X2");
        let (goal, fin) = match rng.below(6) {
            0 | 1 => (format!("({}), ({})", g1, g2), f1 && f2),
            2 => (format!("( ({}) ; ({}) )", g1, g2), f1 && f2),
            3 => (format!("\\+ ({}), ({})", g1, g2), f2),
            4 => {
                let (g3, f3) = pick(rng, "X3");
                (format!("( ({}) -> ({}) ; ({}) )", g1, g2, g3), f2 && f3)
            }
            _ => (format!("call_with_inference_limit(({}), {}, R9), ({})", g1, rng.range(0, 40), g2), f2),
        };
        json!({"kind": "sweep", "goal": goal, "wit": "w(X1,X2,X3)", "finite": fin})
    }

    fn exec(&mut self, case: &Value) -> Outcome {
        let mut out = Outcome::default();
        let mut m1 = match self.m1.take() {
            Some(m) if m.alive() => m,
            _ => Mach::new(),
        };
        let mut m2 = match self.m2.take() {
            Some(m) if m.alive() => m,
            _ => Mach::new(),
        };
        let t0 = vh::ticks();
        vh::set_tick_budget(t0 + 400_000_000);
        let r = if case["kind"] == "nest" {
            exec_nest(&mut m1, case, &mut out)
        } else if case["kind"] == "nestgrid" {
            exec_nestgrid(&mut m1, case, &mut out)
        } else {
            exec_sweep(&mut m1, &mut m2, case, &mut out)
        };
        vh::set_tick_budget(u64::MAX);
        if let Err((class, key, detail)) = r {
            out.violate(&class, key, detail);
            self.m1 = None;
            self.m2 = None;
            return out;
        }
        // (f) the machine that swept is as good as new
        if m1.alive() {
            if let Some((key, detail)) = run_followup(&mut m1, &self.followup, 20_000_000) {
                out.violate("followup", key, format!("after sweeping `{}`: {detail}", case["goal"].as_str().unwrap_or("nest grid")));
                self.m1 = None;
                self.m2 = Some(m2);
                return out;
            }
        }
        out.bump("sim_ticks", vh::ticks() - t0);
        self.m1 = Some(m1);
        self.m2 = Some(m2);
        out
    }

    fn shrink(&self, _case: &Value) -> Vec<Value> {
        vec![]
    }

    fn describe(&self) -> Value {
        json!({
            "real": ["whole Machine: call_with_inference_limit/3 (iso_ext.pl), install/remove_inference_counter, increment_call_count, CWIL state"],
            "stub": ["none: the inference limit is the system's own preemption timer over its own logical clock; the harness sweeps it"],
            "rule": "goal from a 29-entry library or a seeded composition (conjunction, disjunction, negation, if-then-else, nested limit) x every limit L from 0 to threshold+5 (cap 160), twice (ascending on one machine, shuffled on a second machine); every 16th run is a nesting-overhead grid; distinct = hash of all results of the sweep; non-trivial = at least one L gave inference_limit_exceeded",
            "assumptions": ["relations only: no absolute inference counts are asserted", "limits above 160 are not swept (goals needing more are checked up to the cap)"],
        })
    }
}

type Fail = (String, String, String);

fn exec_sweep(m1: &mut Mach, m2: &mut Mach, case: &Value, out: &mut Outcome) -> Result<(), Fail> {
    let goal = case["goal"].as_str().unwrap_or("true");
    let wit = case["wit"].as_str().unwrap_or("X1");
    let nested = goal.contains("call_with_inference_limit");
    let finite = case["finite"].as_bool().unwrap_or(false) && !nested;
    let fail = |class: &str, key: &str, detail: String| -> Fail { (class.into(), format!("{}:{}", key, goal), detail) };
    let pk = |p: String| -> Fail {
        let class = if p.contains("TickBudgetExceeded") { "hang" } else { "panic" };
        let key = if nested { format!("{}@nested-limits", panic_key(&p)) } else { panic_key(&p) };
        (class.into(), key, format!("`{goal}`: {p}"))
    };
    let mut h = 0xcbf29ce484222325u64;
    hash_bytes(&mut h, goal.as_bytes());

    // G's own solutions (independent of the mechanism under test)
    let own: Option<Res> = if finite { own_solutions(m2, goal).map_err(pk)? } else { None };

    // ascending sweep on m1
    let mut results: Vec<Res> = vec![];
    let mut complete_at: Option<u64> = None;
    let mut l = 0;
    while l <= LMAX {
        let r = eval(m1, goal, wit, l).map_err(pk)?;
        if let Res::Lists(rs, _) = &r {
            if rs.last().map(|x| x == "...").unwrap_or(false) {
                // more than MAX_ANSWERS answers: the sweep of this goal ends here
                out.bump("sweeps_cut_at_answer_cap", 1);
                break;
            }
        }
        let done = match &r {
            Res::Lists(rs, _) => !rs.iter().any(|x| x.contains("inference_limit_exceeded")),
            Res::Ball(_) => true,
        };
        if !done {
            out.nontrivial = true;
        }
        results.push(r);
        if done && complete_at.is_none() {
            complete_at = Some(l);
        }
        if let Some(c) = complete_at {
            if l >= c + 5 {
                break;
            }
        }
        l += 1;
    }
    out.bump("limits_swept", results.len() as u64);
    out.bump("goals_completing_within_cap", complete_at.is_some() as u64);

    // (b) faithfulness per L, (c)(d) monotonicity across L
    let mut prev_ws: Vec<String> = vec![];
    let mut final_seen: Option<Res> = None;
    for (l, r) in results.iter().enumerate() {
        hash_bytes(&mut h, format!("{:?}", r).as_bytes());
        match r {
            Res::Lists(rs, ws) => {
                for (i, x) in rs.iter().enumerate() {
                    let last = i + 1 == rs.len();
                    let okv = x == R_TRUE || x == R_CUT || x == R_EXC;
                    if !okv {
                        return Err(fail("wrong-result", "bad-R-value", format!("`{goal}` L={l}: R value {x} in {}", clipv(rs))));
                    }
                    if (x == R_CUT || x == R_EXC) && !last {
                        return Err(fail("wrong-result", "R-not-last", format!("`{goal}` L={l}: {x} is not the last result: {}", clipv(rs))));
                    }
                }
                let exceeded = rs.last().map(|x| x == R_EXC).unwrap_or(false);
                let nsol = rs.len() - exceeded as usize;
                if nsol != ws.len() {
                    return Err(fail("wrong-result", "witness-count", format!("`{goal}` L={l}: {:?} vs witnesses {:?}", rs, ws)));
                }
                if let Some(Res::Lists(_, own_ws)) = &own {
                    if ws.len() > own_ws.len() || ws[..] != own_ws[..ws.len()] {
                        return Err(fail("unfaithful", "not-a-prefix", format!("`{goal}` L={l}: solutions {:?} are not a prefix of the goal's own solutions {:?}", ws, own_ws)));
                    }
                    if !exceeded && ws.len() != own_ws.len() {
                        return Err(fail("unfaithful", "incomplete-without-exceeded", format!("`{goal}` L={l}: results {:?} report no inference_limit_exceeded but solutions {:?} are not all of {:?}", rs, ws, own_ws)));
                    }
                    if rs.last().map(|x| x == R_CUT).unwrap_or(false) && ws.len() != own_ws.len() {
                        return Err(fail("unfaithful", "cut-marker-early", format!("`{goal}` L={l}: R = ! on solution {} of {}", ws.len(), own_ws.len())));
                    }
                }
                if let Some(Res::Ball(b)) = &own {
                    if !exceeded {
                        return Err(fail("unfaithful", "exception-lost", format!("`{goal}` L={l}: completed with {:?} although the goal itself throws {b}", rs)));
                    }
                }
                // monotone prefix (an enclosing limit changes what an inner limit does, by
                // design "only the last limit is in power": not asserted for nested goals)
                if nested {
                    continue;
                }
                if ws.len() < prev_ws.len() || ws[..prev_ws.len()] != prev_ws[..] {
                    return Err(fail("non-monotone", "prefix-shrinks", format!("`{goal}`: solutions at L={} {:?}, at L={l} {:?}", l.saturating_sub(1), prev_ws, ws)));
                }
                prev_ws = ws.clone();
                if let Some(f) = &final_seen {
                    if f != r {
                        return Err(fail("non-monotone", "changes-after-completion", format!("`{goal}`: complete result {:?} but L={l} gives {:?}", f, r)));
                    }
                }
                if !exceeded {
                    final_seen = Some(r.clone());
                }
            }
            Res::Ball(_) if nested => {}
            Res::Ball(b) => {
                if let Some(Res::Ball(ob)) = &own {
                    if ob != b {
                        return Err(fail("unfaithful", "exception-changed", format!("`{goal}` L={l}: ball {b}, the goal's own ball is {ob}")));
                    }
                } else if let Some(Res::Lists(..)) = &own {
                    return Err(fail("unfaithful", "spurious-exception", format!("`{goal}` L={l}: ball {b} although the goal itself does not throw")));
                }
                if let Some(f) = &final_seen {
                    if f != r {
                        return Err(fail("non-monotone", "changes-after-completion", format!("`{goal}`: complete result {:?} but L={l} gives {:?}", f, r)));
                    }
                }
                final_seen = Some(r.clone());
            }
        }
    }

    // (a) determinism: shuffled order on another machine, after unrelated work
    let mut order: Vec<usize> = (0..results.len()).collect();
    // deterministic shuffle derived from the goal text
    let mut s = crate::prng::Prng::new(crate::prng::fnv(goal));
    s.shuffle(&mut order);
    let _ = m2.all("findall(X-Y, (member(X, [1,2,3]), member(Y, [a,b])), L), length(L, N).");
    for l in order {
        let r2 = eval(m2, goal, wit, l as u64).map_err(pk)?;
        if r2 != results[l] {
            return Err(fail("nondeterministic", "differs-across-runs", format!("`{goal}` L={l}: ascending sweep gave {:?}, shuffled sweep on another machine gave {:?}", results[l], r2)));
        }
    }
    out.bump("determinism_pairs", results.len() as u64);
    out.hash = h;
    out.transcript = format!("{goal}: complete at L={:?}; {} limits; final {:?}", complete_at, results.len(), final_seen);
    Ok(())
}

fn exec_nest(m: &mut Mach, case: &Value, out: &mut Outcome) -> Result<(), Fail> {
    let a: Vec<u64> = case["a"].as_array().map(|v| v.iter().filter_map(|x| x.as_u64()).collect()).unwrap_or_default();
    let ms: Vec<u64> = case["m"].as_array().map(|v| v.iter().filter_map(|x| x.as_u64()).collect()).unwrap_or_default();
    let mut diffs = vec![];
    let mut h = 0xcbf29ce484222325u64;
    for &ai in &a {
        for &mi in &ms {
            let thr = |m: &mut Mach, goal: String| -> Result<Option<u64>, Fail> {
                let q = format!("c40_threshold(({}), 400, T).", goal);
                let r = m.all(&q);
                if let Some(p) = r.panic {
                    return Err(("panic".into(), panic_key(&p), format!("`{q}`: {p}")));
                }
                Ok(match r.items.first() {
                    Some(Ans::Bind(b)) => b.strip_prefix("T=").and_then(|x| x.parse().ok()),
                    _ => None,
                })
            };
            let plain = thr(m, format!("vh_count(0, {}), vh_count(0, {})", ai, mi))?;
            let nested = thr(m, format!("call_with_inference_limit(vh_count(0, {}), 100000, _), vh_count(0, {})", ai, mi))?;
            match (plain, nested) {
                (Some(p), Some(n)) => {
                    diffs.push((ai, mi, p, n, n as i64 - p as i64));
                    hash_bytes(&mut h, &p.to_le_bytes());
                    hash_bytes(&mut h, &n.to_le_bytes());
                }
                _ => return Err(("wrong-result".into(), "nest:no-threshold".into(), format!("no threshold found for a={ai} m={mi}: plain {:?} nested {:?}", plain, nested))),
            }
        }
    }
    out.nontrivial = true;
    out.bump("nesting_grid_points", diffs.len() as u64);
    out.hash = h;
    out.transcript = format!("nesting grid (a, m, thr_plain, thr_nested, diff): {:?}", diffs);
    if let Some(first) = diffs.first() {
        if diffs.iter().any(|d| d.4 != first.4) {
            return Err(("nesting-disturbs-outer-count".into(), "nest:overhead-not-constant".into(), format!("thr_nested - thr_plain is not constant over the grid: {:?}", diffs)));
        }
    }
    Ok(())
}

fn clipv(v: &[String]) -> String {
    let s = format!("{:?}", v);
    if s.len() > 300 {
        format!("{}...", &s[..300])
    } else {
        s
    }
}

/// For one nested goal, the whole (inner limit, outer limit) matrix: for every inner limit the
/// outer outcome is monotone in the outer limit (exceeded below a threshold, one fixed result
/// from the threshold on).
fn exec_nestgrid(m: &mut Mach, case: &Value, out: &mut Outcome) -> Result<(), Fail> {
    let a = case["a"].as_u64().unwrap_or(3);
    let mm = case["m"].as_u64().unwrap_or(3);
    let mut h = 0xcbf29ce484222325u64;
    let mut cells = 0u64;
    for li in 0..=(a + 22) {
        let mut done: Option<(u64, String)> = None;
        for lo in 0..=(a + mm + 70) {
            let q = format!("call_with_inference_limit((call_with_inference_limit(vh_count(0, {a}), {li}, Ri), vh_count(0, {mm})), {lo}, Ro).");
            vh::set_tick_budget(vh::ticks() + 3_000_000);
            let r = m.run(&q, 3);
            vh::set_tick_budget(u64::MAX);
            cells += 1;
            if let Some(p) = &r.panic {
                let class = if p.contains("TickBudgetExceeded") { "hang" } else { "panic" };
                return Err((class.into(), format!("{}@nested-limits", panic_key(p)), format!("`{q}`: {p}")));
            }
            let text = r.text();
            hash_bytes(&mut h, text.as_bytes());
            let ro = match r.items.first() {
                Some(Ans::Bind(b)) => binding(b, "Ro").unwrap_or("?").to_string(),
                _ => "?".to_string(),
            };
            if r.items.len() != 1 || ro == "?" {
                return Err(("wrong-result".into(), "nestgrid:answer-shape".into(), format!("`{q}` gave [{text}]")));
            }
            let exceeded = ro == R_EXC;
            match &done {
                None => {
                    if !exceeded {
                        done = Some((lo, text.clone()));
                    } else {
                        out.nontrivial = true;
                    }
                }
                Some((at, first)) => {
                    if exceeded || *first != text {
                        return Err(("non-monotone".into(), "nestgrid:outer-limit-non-monotone".into(), format!("a={a} m={mm} inner limit {li}: outer limit {at} completes with [{first}] but larger outer limit {lo} gives [{text}]")));
                    }
                }
            }
        }
    }
    out.bump("nestgrid_cells", cells);
    out.hash = h;
    out.transcript = format!("nestgrid a={a} m={mm}: {cells} (inner, outer) limit pairs");
    Ok(())
}
