//! C30 — memory exhaustion at any allocation raises a catchable error.
//!
//! Real Machine, real heap code; the allocator's verdict is the seam (hook in
//! `InnerHeap::grow`). The k-th growth attempt after arming fails (one-shot, or a short burst),
//! under three growth policies: production (512 KiB, x2), small (small initial size, x2) and
//! exact-fit (capacity grows by `step` cells per attempt inside a guarded allocation, so that
//! every allocation site is a growth attempt). All heaps of the machine are covered.
//! Oracle: no panic/abort/hang; if a failure was injected the query ends with
//! `error(resource_error(memory), _)` (caught by the goal's catch/3 or escaping the query),
//! never with its normal answer or another ball; afterwards the follow-up battery F gives the
//! answers of a fresh machine; guard canaries intact.

use super::c31::{goal_key, load_baselines, run_followup, workload_query};
use super::c33::parse_policy;
use super::{panic_key, Check, Outcome, Tier};
use crate::mach::{Ans, Mach, QOut};
use crate::prng::{hash_bytes, Prng};
use crate::workloads::WORKLOADS;
use scryer_prolog::verif_hooks as vh;
use scryer_prolog::verif_hooks::{GrowPolicy, HeapCtl};
use serde_json::{json, Value};
use std::collections::BTreeMap;

pub const RESOURCE_FORMAL: &str = "\"error\"(\"resource_error\"(\"memory\"),";

pub const POLICIES: &[&str] = &["exact:1", "exact:8", "small:4096", "small:65536", "production"];

pub fn policy_value(p: &str) -> Value {
    match p.split_once(':') {
        Some(("exact", n)) => json!({"exact": n.parse::<u64>().unwrap_or(1)}),
        Some(("small", n)) => json!({"small": n.parse::<u64>().unwrap_or(4096)}),
        _ => json!("production"),
    }
}

pub struct C30 {
    m: Option<Mach>,
    base: BTreeMap<String, (QOut, u64)>,
    followup: Vec<QOut>,
    /// growth attempts of the unfaulted run per (goal, policy)
    attempts: BTreeMap<(String, String), u64>,
}

impl C30 {
    pub fn new() -> Self {
        C30 { m: None, base: BTreeMap::new(), followup: vec![], attempts: BTreeMap::new() }
    }
}

pub fn goals() -> Vec<String> {
    let mut v = vec![];
    for (w, sizes) in WORKLOADS {
        for s in *sizes {
            v.push(workload_query(w, *s));
        }
        // goals that go on after the handler inside the same query (see c31.rs)
        for c in super::c31::CONTINUATIONS {
            v.push(super::c31::continuation_query(c, w, sizes[0]));
        }
    }
    v
}

fn ctl_for(policy: GrowPolicy) -> HeapCtl {
    HeapCtl { active: true, policy, fail_at: 0, fail_len: 0, guard_bytes: 4096, shrink_on_truncate: false, backtrace: true }
}

/// Run `goal` on `m` with the heaps adopted (tight) under `policy`; the failure window is armed
/// right before the first `next()`. Returns (answers, stats).
fn run_armed(m: &mut Mach, goal: &str, policy: GrowPolicy, shrink: bool, k: u64, len: u64) -> (QOut, vh::HeapStats) {
    vh::adopt_heaps(m.machine(), 4096, true);
    let mut ctl = ctl_for(policy);
    ctl.shrink_on_truncate = shrink;
    vh::set_heap_ctl(ctl);
    let got = m.run_with(goal, usize::MAX, |i| {
        if i == 0 {
            let mut c = vh::heap_ctl();
            // count attempts from here: the quantifier is "while the goal runs"
            let seen = vh::heap_stats().attempts;
            if k > 0 {
                c.fail_at = seen + k;
                c.fail_len = len;
            }
            vh::update_heap_ctl(c);
            ARMED_AT.with(|a| a.set(seen));
        }
    });
    let st = vh::heap_stats();
    // disarm the failure, keep the managed heaps on the production policy from now on
    let mut off = ctl_for(GrowPolicy::Production);
    off.active = false;
    vh::update_heap_ctl(off);
    (got, st)
}

thread_local! {
    static ARMED_AT: std::cell::Cell<u64> = const { std::cell::Cell::new(0) };
}

impl Check for C30 {
    fn id(&self) -> &'static str {
        "C30"
    }

    fn runs(&self, tier: Tier) -> u64 {
        match tier {
            Tier::Quick => 6_000,
            Tier::Thorough => 400_000,
        }
    }

    fn batch(&self) -> u64 {
        200
    }

    fn timeout_s(&self) -> f64 {
        30.0
    }

    fn make_oracle(&mut self) -> Value {
        let gs = goals();
        let mut o = super::c31::make_baselines(&gs);
        // growth attempts per (goal, policy) on a fresh image, unfaulted; answers must not depend
        // on the policy (self-check of the hook)
        let mut pristine = Mach::new();
        let mut rows = vec![];
        for g in &gs {
            for p in POLICIES {
                for shrink in [false, true] {
                    let policy = parse_policy(&policy_value(p));
                    let (buf, _) = crate::forkutil::in_child(120_000, |fd| {
                        let (r, st) = run_armed(&mut pristine, g, policy, shrink, 0, 0);
                        let armed_at = ARMED_AT.with(|a| a.get());
                        let guards = if pristine.alive() { vh::check_guards(pristine.machine()) } else { 0 };
                        let j = json!({"q": g, "policy": p, "shrink": shrink, "attempts": st.attempts - armed_at, "out": r.to_json(), "guards": guards + vh::heap_stats().guard_violations});
                        crate::forkutil::write_all_fd(fd, j.to_string().as_bytes());
                    });
                    rows.push(serde_json::from_slice::<Value>(&buf).unwrap_or(json!({"q": g, "policy": p, "shrink": shrink, "out": Value::Null})));
                }
            }
        }
        o["attempts"] = json!(rows);
        o
    }

    fn prepare(&mut self, oracle: Option<&Value>) {
        let (b, f) = load_baselines(oracle);
        self.base = b;
        self.followup = f;
        if let Some(o) = oracle {
            for r in o["attempts"].as_array().cloned().unwrap_or_default() {
                let key = (r["q"].as_str().unwrap_or("").to_string(), format!("{}{}", r["policy"].as_str().unwrap_or(""), if r["shrink"].as_bool().unwrap_or(false) { "+shrink" } else { "" }));
                self.attempts.insert(key, r["attempts"].as_u64().unwrap_or(0));
            }
        }
        self.m = Some(Mach::new());
    }

    fn gen(&mut self, rng: &mut Prng, _idx: u64, _tier: Tier) -> Value {
        let gs = goals();
        let g = rng.pick(&gs).clone();
        let p = match rng.below(10) {
            0..=3 => "exact:1",
            4..=5 => "exact:8",
            6 => "small:4096",
            7 => "small:65536",
            _ => "production",
        };
        let shrink = p.starts_with("exact") && rng.chance(1, 2);
        // one-shot failures only: the property quantifies over "the k-th growth attempt, for
        // every k". (A burst makes the allocation of the ball itself fail as well, which
        // throw_resource_error answers with a deliberate panic; outside the stated quantifier.)
        let len = 1;
        // position among the unfaulted run's attempts
        let pos = match rng.below(10) {
            0 => json!({"k": rng.range(1, 10)}),
            1 => json!({"from_end": rng.range(0, 10)}),
            _ => json!({"per100k": rng.below(100_000)}),
        };
        let mut c = json!({"goal": g, "policy": p, "shrink": shrink, "len": len});
        for (k, v) in pos.as_object().unwrap() {
            c[k] = v.clone();
        }
        c
    }

    fn exec(&mut self, case: &Value) -> Outcome {
        let mut out = Outcome::default();
        let goal = case["goal"].as_str().unwrap_or("true.").to_string();
        let pname = case["policy"].as_str().unwrap_or("production").to_string();
        let shrink = case["shrink"].as_bool().unwrap_or(false);
        let policy = parse_policy(&policy_value(&pname));
        let len = case["len"].as_u64().unwrap_or(1);
        let (base, base_ticks) = match self.base.get(&goal) {
            Some(b) => b.clone(),
            None => {
                out.violate("fresh-crash", format!("fresh-crash:{}", goal), format!("`{goal}` crashes or hangs a fresh machine"));
                return out;
            }
        };
        let g_attempts = *self.attempts.get(&(goal.clone(), format!("{}{}", pname, if shrink { "+shrink" } else { "" }))).unwrap_or(&0);
        let k = if let Some(k) = case["k"].as_u64() {
            k
        } else if let Some(e) = case["from_end"].as_u64() {
            g_attempts.saturating_sub(e).max(1)
        } else {
            1 + g_attempts * case["per100k"].as_u64().unwrap_or(0) / 100_000
        };
        let mut m = match self.m.take() {
            Some(m) if m.alive() => m,
            _ => Mach::new(),
        };
        let mut h = 0xcbf29ce484222325u64;
        hash_bytes(&mut h, goal.as_bytes());
        hash_bytes(&mut h, pname.as_bytes());
        hash_bytes(&mut h, &[shrink as u8, len as u8]);
        hash_bytes(&mut h, &k.to_le_bytes());

        let t0 = vh::ticks();
        vh::set_catch_trace(true);
        let _ = vh::take_last_interrupt_catcher();
        vh::set_tick_budget(t0 + 50 * base_ticks + 500_000);
        let (got, st) = run_armed(&mut m, &goal, policy, shrink, k, len);
        vh::set_tick_budget(u64::MAX);
        let mut catchers: Vec<String> = vh::take_catch_trace().into_iter().filter(|c| c != "<code 2>").collect();
        vh::set_catch_trace(false);
        catchers.dedup();
        let catcher = catchers.first().cloned().unwrap_or_else(|| "-".to_string());
        // the goal that kept the resource error (the last catch/3 that received one) names the
        // site exactly; the first catch/3 that looked at any ball is the fallback
        let keeper = vh::take_last_interrupt_catcher();
        let catcher = if keeper.is_empty() { catcher } else { keeper };
        let fired = st.failed > 0;
        let site = st.fail_backtrace.as_deref().map(site_of).unwrap_or_else(|| "?".into());
        out.bump("sim_ticks", vh::ticks() - t0);
        out.bump("grow_attempts", st.attempts);
        hash_bytes(&mut h, got.text().as_bytes());
        out.hash = h;
        out.transcript = format!("{goal} [{pname}{}] growth attempt {k}(+{}) of {g_attempts} fails{} => {}", if shrink { "+shrink" } else { "" }, len - 1, if fired { format!(" FIRED at {site}") } else { String::new() }, got.text());

        let mut bad: Option<(String, String, String)> = None;
        let guards = if m.alive() { vh::check_guards(m.machine()) } else { 0 };
        let st2 = vh::heap_stats();
        if let Some(p) = &got.panic {
            let class = if p.contains("TickBudgetExceeded") { "hang" } else { "panic" };
            let key = if class == "panic" && fired { format!("{}@{}", panic_key(p), site) } else { panic_key(p) };
            bad = Some((class.into(), key, format!("`{goal}` [{pname}] with growth attempt {k} failing (site {site}): {p}")));
        } else if guards > 0 || st2.guard_violations > 0 {
            bad = Some(("guard".into(), format!("guard:{}", site), format!("`{goal}` [{pname}] attempt {k} failing: bytes past the capacity were written: {}", st2.first_violation.unwrap_or_default())));
        } else if fired {
            out.nontrivial = true;
            out.bump("fault.grow_failed", st.failed);
            out.bump(&format!("fault.policy.{}", pname.split(':').next().unwrap_or("")), 1);
            let last_ball = got.items.iter().rev().find_map(|a| a.ball().map(|s| s.to_string()));
            let caught = got.items.iter().any(|a| matches!(a, Ans::Bind(b) if b.contains(&format!("B={}", RESOURCE_FORMAL))));
            if caught {
                out.bump("resource_error_caught_by_goal_catch", 1);
                let want = base.items.iter().find_map(|a| if let Ans::Bind(b) = a { super::c31::binding(b, "K") } else { None });
                if let Some(want) = want {
                    let have = got.items.iter().find_map(|a| if let Ans::Bind(b) = a { super::c31::binding(b, "K") } else { None });
                    out.bump("goals_after_handler_in_same_query_checked", 1);
                    if have != Some(want) {
                        let c = goal.split('(').next().unwrap_or("?");
                        bad = Some(("post-handler-wrong".into(), format!("post-handler-wrong:{}@{}", c, site), format!("`{goal}` [{pname}]: growth attempt {k} failed at {site}, the error was handled by the goal's catch/3, and the goals after the handler gave K = {}; without a failure K = {want}", have.unwrap_or("<none>"))));
                    }
                }
            } else if last_ball.as_deref().map(|b| b.starts_with(RESOURCE_FORMAL)).unwrap_or(false) {
                out.bump("resource_error_escaped_query", 1);
            } else if catcher != "-" {
                // a library catch/3 picked the resource error up and did not pass it on
                bad = Some(("alloc-failure-caught-by-library".into(), format!("alloc-failure-caught-by:{}", catcher), format!("`{goal}` [{pname}]: growth attempt {k} of {g_attempts} failed at {site}; the ball was picked up by a catch/3 called from {catcher}; the query ended with [{}] (baseline [{}])", got.text(), base.text())));
            } else if got == base {
                let by = format!("ignored-at:{}", site);
                bad = Some(("alloc-failure-unreported".into(), format!("alloc-failure-{}", by), format!("`{goal}` [{pname}]: growth attempt {k} of {g_attempts} failed at {site} but the query returned its normal answers [{}] (first catcher: {catcher})", got.text())));
            } else {
                bad = Some(("wrong-outcome".into(), format!("wrong-outcome-at:{}|{}", site, catcher), format!("`{goal}` [{pname}]: growth attempt {k} failed at {site}: got [{}], expected error(resource_error(memory),_) (baseline [{}]); first catcher: {catcher}", got.text(), base.text())));
            }
        } else {
            out.bump("failure_beyond_end", 1);
            if got != base {
                bad = Some(("wrong-outcome".into(), format!("unfaulted-differs:{}", goal_key(&goal)), format!("`{goal}` [{pname}] (failure armed at attempt {k}, not reached): got [{}], baseline [{}]", got.text(), base.text())));
            }
        }

        if bad.is_none() && fired && m.alive() {
            if let Some((key, detail)) = run_followup(&mut m, &self.followup, 5_000_000) {
                bad = Some(("followup".into(), key, format!("after `{goal}` [{pname}] with growth attempt {k} failing at {site}: {detail}")));
            } else {
                out.bump("followup_batteries_ok", 1);
            }
        }
        vh::set_heap_ctl(HeapCtl::OFF);
        match bad {
            Some((class, key, detail)) => {
                out.violate(&class, key, detail);
                self.m = None;
            }
            None => self.m = Some(m),
        }
        out
    }

    fn shrink(&self, case: &Value) -> Vec<Value> {
        let mut out = vec![];
        if case["len"].as_u64().unwrap_or(1) > 1 {
            let mut c = case.clone();
            c["len"] = json!(1);
            out.push(c);
        }
        if case["shrink"].as_bool().unwrap_or(false) {
            let mut c = case.clone();
            c["shrink"] = json!(false);
            out.push(c);
        }
        out
    }

    fn describe(&self) -> Value {
        json!({
            "real": ["whole Machine; Heap growth paths, AllocError propagation (step_or_resource_error & co), throw_resource_error, catch/3, run_query iterator"],
            "stub": ["allocator verdict (k-th growth attempt after arming fails; one-shot or burst of 2-5)", "growth policy (exact-fit step 1/8, small initial 4 KiB/64 KiB, production) inside a guarded allocation"],
            "rule": "goal from the workload library (20 workloads x 3 sizes) x growth policy x position k among the unfaulted run's growth attempts x burst length; distinct = hash of (goal, policy, k, outcome); non-trivial = a growth failure was actually injected",
            "assumptions": ["exact-fit growth is not production's policy: it is used so that every allocation site is a growth attempt (in production the site at which doubling happens depends only on prior fill)", "failures are injected while the goal runs (armed after run_query has parsed and written the query term)", "follow-up battery F (20 fixed queries) stands for 'later goals compute correct results'"],
        })
    }
}

/// Site key of an injected failure: the first few crate functions above `grow` in the
/// captured backtrace (function names, no line numbers).
pub fn site_of(bt: &str) -> String {
    let mut names: Vec<String> = vec![];
    let mut lines = bt.lines().peekable();
    let mut seen_grow = false;
    while let Some(l) = lines.next() {
        let l = l.trim();
        // frame lines look like "12: scryer_prolog::machine::heap::Heap::reserve"
        let Some((_, name)) = l.split_once(": ") else { continue };
        if !l.chars().next().map(|c| c.is_ascii_digit()).unwrap_or(false) {
            continue;
        }
        let in_repo = lines.peek().map(|n| n.contains("/repo/src/")).unwrap_or(false);
        if !in_repo {
            continue;
        }
        let short = short_fn(name);
        if short.contains("verif") || short.contains("grow_attempt") {
            continue;
        }
        if short.ends_with("grow") || short.contains("::grow") {
            seen_grow = true;
            continue;
        }
        if !seen_grow {
            continue;
        }
        if names.last() != Some(&short) {
            names.push(short);
        }
        if names.len() >= 3 {
            break;
        }
    }
    if names.is_empty() {
        "?".into()
    } else {
        names.join("<")
    }
}

fn short_fn(name: &str) -> String {
    // drop generic args, hashes and closure markers; keep the last two path segments
    let name = name.split("::h").next().unwrap_or(name);
    let mut segs: Vec<&str> = name.split("::").filter(|s| !s.starts_with('{') && !s.starts_with('<')).collect();
    if segs.len() > 2 {
        segs = segs[segs.len() - 2..].to_vec();
    }
    segs.join("::").chars().filter(|c| c.is_ascii_alphanumeric() || *c == '_' || *c == ':').collect()
}
