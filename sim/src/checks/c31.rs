//! C31 — an interrupt at any point is caught cleanly.
//!
//! The signal handler is replaced by the injector: the instruction clock (tick hook in both
//! dispatch loops) raises the real INTERRUPT flag when it reaches n and forces the poll at that
//! boundary; the crate's own `check_for_interrupt` / `throw_interrupt_exception` / unwinding run
//! unmodified. Enumerated: every n of every workload at its small size (thorough), a seeded
//! sample over all sizes and textual goals (quick).
//! Oracle: no panic/hang; if the interrupt fired the query ends with the documented ball
//! `error('$interrupt_thrown', repl/0)` — caught by the goal's catch/3 or escaping the query —
//! never with the baseline answer or another ball; afterwards the follow-up battery F gives the
//! answers of a fresh machine.

use super::{panic_key, Check, Outcome, Tier};
use crate::mach::{Ans, Mach, QOut};
use crate::prng::{hash_bytes, Prng};
use crate::workloads::{self, FOLLOWUP, FOLLOWUP_CLEAN, WORKLOADS};
use scryer_prolog::verif_hooks as vh;
use serde_json::{json, Value};
use std::collections::BTreeMap;

pub const INTERRUPT_BALL: &str = "\"error\"(\"$interrupt_thrown\",\"/\"(\"repl\",0))";
pub const INTERRUPT_FORMAL: &str = "\"error\"(\"$interrupt_thrown\",";

/// Textual goals (run as they are, no catch around them): the interrupt can strike during the
/// `call/1` goal preparation as well.
pub const TEXTUAL: &[&str] = &[
    "X = 1.",
    "member(X, [a,b,c]).",
    "atom_length(1, 2, 3).",
    "atom_length(X, Y).",
    "findall(X, member(X, [1,2,3]), L).",
    "catch(throw(x), x, true).",
    "X is 2 + foo.",
    "length(L, 2), L = [a|_].",
    "setup_call_cleanup(true, member(X, [1,2]), true).",
    "assertz(lg(1)), retract(lg(1)).",
    "freeze(X, Y = 1), X = a.",
    "call_with_inference_limit(member(X, [1,2]), 100, R).",
    "\\+ member(z, [a,b]), atom_chars(A, \"xyz\").",
];

pub struct C31 {
    m: Option<Mach>,
    /// baseline (answer text, ticks) per goal text
    base: BTreeMap<String, (QOut, u64)>,
    followup: Vec<QOut>,
}

impl C31 {
    pub fn new() -> Self {
        C31 { m: None, base: BTreeMap::new(), followup: vec![] }
    }
}

pub fn workload_query(w: &str, size: u64) -> String {
    format!("catch({}, B, true).", workloads::goal(w, size))
}

/// Goals that go on after the handler inside the same query: state made before the catch/3
/// (suspended goals, attributed variables inside an open call_residue_vars/2, a backtrackable
/// global variable) is used after it; `K` collects what the later goals computed and does not
/// depend on the workload.
pub const CONTINUATIONS: &[&str] = &["c31_resid", "c31_after", "c31_attcopy"];

pub fn continuation_query(c: &str, w: &str, size: u64) -> String {
    format!("{}({}, B, K).", c, workloads::goal(w, size).replace(", R)", ", _)"))
}

pub fn binding<'a>(b: &'a str, name: &str) -> Option<&'a str> {
    b.split(';').find_map(|seg| seg.strip_prefix(name).and_then(|r| r.strip_prefix('=')))
}

/// All goals of the check: (text, is_textual)
pub fn all_goals() -> Vec<(String, bool)> {
    let mut v = vec![];
    for (w, sizes) in WORKLOADS {
        for s in *sizes {
            v.push((workload_query(w, *s), false));
        }
        for c in CONTINUATIONS {
            for s in &sizes[..2] {
                v.push((continuation_query(c, w, *s), false));
            }
        }
    }
    for t in TEXTUAL {
        v.push((t.to_string(), true));
    }
    v
}

/// Goals whose every n is enumerated in the thorough tier: small workload sizes + textual goals.
pub fn enumerated_goals() -> Vec<String> {
    let mut v = vec![];
    for (w, sizes) in WORKLOADS {
        v.push(workload_query(w, sizes[0]));
    }
    for t in TEXTUAL {
        v.push(t.to_string());
    }
    for c in CONTINUATIONS {
        for w in ["w_attrhead", "w_dif", "w_list"] {
            let sizes = WORKLOADS.iter().find(|(n, _)| *n == w).map(|(_, s)| *s).unwrap();
            v.push(continuation_query(c, w, sizes[0]));
        }
    }
    v
}

pub const ENUM_CAP: u64 = 25_000;

/// Compute baselines (answer + ticks on a fresh image, as the first query after boot) and the
/// follow-up battery's fresh answers.
pub fn make_baselines(goals: &[String]) -> Value {
    let mut pristine = Mach::new();
    let mut rows = vec![];
    for g in goals {
        let (buf, _) = crate::forkutil::in_child(120_000, |fd| {
            let t0 = vh::ticks();
            let r = pristine.all(g);
            let dt = vh::ticks() - t0;
            // a second run on the same machine: tick counts can differ on first use
            let t1 = vh::ticks();
            let r2 = pristine.all(g);
            let dt2 = vh::ticks() - t1;
            let j = json!({"q": g, "out": r.to_json(), "ticks": dt, "out2": r2.to_json(), "ticks2": dt2});
            crate::forkutil::write_all_fd(fd, j.to_string().as_bytes());
        });
        rows.push(serde_json::from_slice::<Value>(&buf).unwrap_or(json!({"q": g, "out": Value::Null})));
    }
    let mut f = vec![];
    for q in FOLLOWUP {
        let (buf, _) = crate::forkutil::in_child(120_000, |fd| {
            let r = pristine.all(q);
            crate::forkutil::write_all_fd(fd, r.to_json().to_string().as_bytes());
        });
        f.push(serde_json::from_slice::<Value>(&buf).unwrap_or(Value::Null));
    }
    json!({"base": rows, "followup": f})
}

pub fn load_baselines(oracle: Option<&Value>) -> (BTreeMap<String, (QOut, u64)>, Vec<QOut>) {
    let mut base = BTreeMap::new();
    let mut followup = vec![];
    if let Some(o) = oracle {
        for r in o["base"].as_array().cloned().unwrap_or_default() {
            if !r["out"].is_null() {
                let t = r["ticks"].as_u64().unwrap_or(0).max(r["ticks2"].as_u64().unwrap_or(0));
                base.insert(r["q"].as_str().unwrap_or("").to_string(), (QOut::from_json(&r["out"]), t));
            }
        }
        for f in o["followup"].as_array().cloned().unwrap_or_default() {
            followup.push(QOut::from_json(&f));
        }
    }
    (base, followup)
}

/// Run the follow-up battery; returns the first disagreement with the fresh-machine answers.
pub fn run_followup(m: &mut Mach, expected: &[QOut], tick_budget: u64) -> Option<(String, String)> {
    vh::set_tick_budget(vh::ticks() + tick_budget);
    let c = m.all(FOLLOWUP_CLEAN);
    if let Some(p) = &c.panic {
        vh::set_tick_budget(u64::MAX);
        return Some((format!("followup-{}", panic_key(p)), format!("cleanup query: {p}")));
    }
    for (i, q) in FOLLOWUP.iter().enumerate() {
        let r = m.all(q);
        if let Some(p) = &r.panic {
            vh::set_tick_budget(u64::MAX);
            return Some((format!("followup-{}", panic_key(p)), format!("follow-up `{q}`: {p}")));
        }
        if let Some(w) = expected.get(i) {
            if r != *w {
                vh::set_tick_budget(u64::MAX);
                return Some((format!("followup-wrong:{}", q), format!("follow-up `{q}` gave [{}], a fresh machine gives [{}]", r.text(), w.text())));
            }
        }
    }
    vh::set_tick_budget(u64::MAX);
    None
}

impl Check for C31 {
    fn id(&self) -> &'static str {
        "C31"
    }

    fn runs(&self, tier: Tier) -> u64 {
        match tier {
            Tier::Quick => 8_000,
            Tier::Thorough => enumerated_goals().len() as u64 * ENUM_CAP + 120_000,
        }
    }

    fn batch(&self) -> u64 {
        250
    }

    fn timeout_s(&self) -> f64 {
        30.0
    }

    fn make_oracle(&mut self) -> Value {
        let goals: Vec<String> = all_goals().into_iter().map(|(g, _)| g).collect();
        make_baselines(&goals)
    }

    fn prepare(&mut self, oracle: Option<&Value>) {
        let (b, f) = load_baselines(oracle);
        self.base = b;
        self.followup = f;
        self.m = Some(Mach::new());
    }

    fn gen(&mut self, rng: &mut Prng, idx: u64, tier: Tier) -> Value {
        let en = enumerated_goals();
        let enum_total = en.len() as u64 * ENUM_CAP;
        if tier == Tier::Thorough && idx < enum_total {
            let g = &en[(idx % en.len() as u64) as usize];
            let n = idx / en.len() as u64 + 1;
            return json!({"goal": g, "n": n});
        }
        let goals = all_goals();
        let (g, _) = rng.pick(&goals);
        // position: uniform over the run, biased to the first and last instructions
        let pos = match rng.below(10) {
            0 => json!({"n": rng.range(1, 40)}),
            1 => json!({"from_end": rng.range(0, 40)}),
            _ => json!({"per100k": rng.below(100_000)}),
        };
        let mut c = json!({"goal": g});
        for (k, v) in pos.as_object().unwrap() {
            c[k] = v.clone();
        }
        c
    }

    fn exec(&mut self, case: &Value) -> Outcome {
        let mut out = Outcome::default();
        let goal = case["goal"].as_str().unwrap_or("true.").to_string();
        let (base, base_ticks) = match self.base.get(&goal) {
            Some(b) => b.clone(),
            None => {
                out.violate("fresh-crash", format!("fresh-crash:{}", goal), format!("`{goal}` crashes or hangs a fresh machine"));
                return out;
            }
        };
        if let Some(p) = &base.panic {
            out.violate("panic", panic_key(p), format!("`{goal}` on a fresh machine: {p}"));
            return out;
        }
        let n = if let Some(n) = case["n"].as_u64() {
            n
        } else if let Some(e) = case["from_end"].as_u64() {
            base_ticks.saturating_sub(e).max(1)
        } else {
            1 + base_ticks * case["per100k"].as_u64().unwrap_or(0) / 100_000
        };
        let mut m = match self.m.take() {
            Some(m) if m.alive() => m,
            _ => Mach::new(),
        };
        let mut h = 0xcbf29ce484222325u64;
        hash_bytes(&mut h, goal.as_bytes());
        hash_bytes(&mut h, &n.to_le_bytes());

        let t0 = vh::ticks();
        vh::set_catch_trace(true);
        let _ = vh::take_last_interrupt_catcher();
        vh::set_tick_budget(t0 + 50 * base_ticks + 200_000);
        let got = m.run_with(&goal, usize::MAX, |k| {
            if k == 0 {
                vh::interrupt_at(vh::ticks() + n);
            }
        });
        let fired = vh::interrupt_fired_at() != 0;
        vh::interrupt_at(0);
        let stray = vh::clear_global_interrupt();
        vh::set_tick_budget(u64::MAX);
        let mut catchers: Vec<String> = vh::take_catch_trace().into_iter().filter(|c| c != "<code 2>").collect();
        vh::set_catch_trace(false);
        catchers.dedup();
        // the first catch/3 that picked up a ball after the interrupt was raised identifies the site
        let catchers = catchers.first().cloned().unwrap_or_else(|| "-".to_string());
        // ... but the goal that kept the interrupt ball (the last catch/3 that received it) names
        // the site exactly
        let keeper = vh::take_last_interrupt_catcher();
        let catchers = if keeper.is_empty() { catchers } else { keeper };
        out.bump("sim_ticks", vh::ticks() - t0);
        hash_bytes(&mut h, got.text().as_bytes());
        out.hash = h;
        out.transcript = format!("{goal} interrupt@{n}{} => {}", if fired { " FIRED" } else { "" }, got.text());

        let mut bad: Option<(String, String, String)> = None;
        if let Some(p) = &got.panic {
            if p.starts_with("answer-unprintable") {
                bad = Some(("answer-unprintable".into(), format!("answer-unprintable:{}", goal), format!("`{goal}` interrupted at instruction {n}: the answer holds a term that cannot be printed: {p}")));
            } else {
                let class = if p.contains("TickBudgetExceeded") { "hang" } else { "panic" };
                bad = Some((class.into(), panic_key(p), format!("`{goal}` interrupted at instruction {n}: {p}")));
            }
        } else if fired {
            out.nontrivial = true;
            out.bump("fault.interrupt_fired", 1);
            // the documented ball must end the query: caught (B bound) or escaping
            // (the context argument of the ball is implementation defined; library predicates
            // re-throw errors with their own context)
            let last_ball = got.items.iter().rev().find_map(|a| a.ball().map(|s| s.to_string()));
            let caught = got.items.iter().any(|a| matches!(a, Ans::Bind(b) if b.contains(&format!("B={}", INTERRUPT_FORMAL))));
            if caught {
                out.bump("interrupt_caught_by_goal_catch", 1);
                // the goals after the handler computed what they compute without an interrupt
                let want = base.items.iter().find_map(|a| if let Ans::Bind(b) = a { binding(b, "K") } else { None });
                if let Some(want) = want {
                    let have = got.items.iter().find_map(|a| if let Ans::Bind(b) = a { binding(b, "K") } else { None });
                    out.bump("goals_after_handler_in_same_query_checked", 1);
                    if have != Some(want) {
                        let c = goal.split('(').next().unwrap_or("?");
                        bad = Some(("post-handler-wrong".into(), format!("post-handler-wrong:{}", c), format!("`{goal}` interrupted at instruction {n} and handled: the goals after the handler gave K = {}, without an interrupt K = {want}", have.unwrap_or("<none>"))));
                    }
                }
            } else if last_ball.as_deref().map(|b| b.starts_with(INTERRUPT_FORMAL)).unwrap_or(false) {
                out.bump("interrupt_escaped_query", 1);
            } else if stray {
                // the flag was still pending when the query ended (delivery is deferred to the
                // next poll in a few states): fine near the end, a lost interrupt otherwise
                out.bump("interrupt_pending_at_end", 1);
                if n + 2_000 < base_ticks {
                    bad = Some(("interrupt-not-delivered".into(), format!("interrupt-not-delivered:{}", goal_key(&goal)), format!("`{goal}`: flag raised at instruction {n} of {base_ticks} was never polled successfully")));
                }
            } else if got == base {
                bad = Some(("interrupt-swallowed".into(), format!("interrupt-swallowed-by:{}", catchers), format!("`{goal}`: interrupt raised at instruction {n} of {base_ticks} but the query returned its normal answers [{}]", got.text())));
            } else if goal.starts_with("c31_") && catchers == "builtins:dispatch_call_list/1" {
                // the continuation goal's own catch/3 (called from the conjunction) handled the
                // interrupt, and the goals after the handler did not get to their answer
                bad = Some(("post-handler-wrong".into(), format!("post-handler-failed:{}", goal), format!("`{goal}` interrupted at instruction {n} and handled by the goal's own catch/3: the goals after the handler ended with [{}], without an interrupt [{}]", got.text(), base.text())));
            } else {
                bad = Some(("interrupt-converted".into(), format!("interrupt-converted-by:{}", catchers), format!("`{goal}` interrupted at instruction {n}: got [{}], expected the interrupt ball (baseline [{}]); balls were picked up by catch/3 goals called from: {}", got.text(), base.text(), catchers)));
            }
        } else {
            out.bump("interrupt_beyond_end", 1);
            if got != base {
                bad = Some(("wrong-outcome".into(), format!("unfaulted-differs:{}", goal_key(&goal)), format!("`{goal}` (interrupt armed at {n}, not fired): got [{}], baseline [{}]", got.text(), base.text())));
            }
        }

        if bad.is_none() && fired && m.alive() {
            if let Some((key, detail)) = run_followup(&mut m, &self.followup, 5_000_000) {
                bad = Some(("followup".into(), key, format!("after `{goal}` interrupted at instruction {n}: {detail}")));
            } else {
                out.bump("followup_batteries_ok", 1);
            }
        }
        match bad {
            Some((class, key, detail)) => {
                out.violate(&class, key, detail);
                // the machine is suspect now: do not let it contaminate later runs
                self.m = None;
            }
            None => self.m = Some(m),
        }
        out
    }

    fn shrink(&self, case: &Value) -> Vec<Value> {
        // smaller instruction index with the same outcome class
        let mut out = vec![];
        if let Some(n) = case["n"].as_u64() {
            for m in [n / 2, n - 1] {
                if m >= 1 && m < n {
                    out.push(json!({"goal": case["goal"], "n": m}));
                }
            }
        }
        out
    }

    fn describe(&self) -> Value {
        json!({
            "real": ["whole Machine: dispatch loops, check_for_interrupt, throw_interrupt_exception, unwinding, catch/3, run_query iterator"],
            "stub": ["signal handler / moment of delivery (tick hook raises the real INTERRUPT flag at instruction n and forces the poll)", "embedding application (harness)"],
            "rule": "goal from the workload library (3 sizes) or the textual set x instruction index n; thorough enumerates every n <= 24000 of every small-size workload and textual goal, then samples the larger sizes; distinct = hash of (goal, n, outcome); non-trivial = the interrupt fired inside the run",
            "exhaustive_thorough": false,
            "assumptions": ["production polls the flag every 256 loop iterations with a history-dependent phase, so every instruction boundary is a possible delivery point; the injector forces the poll at the chosen boundary", "follow-up battery F (20 fixed queries) stands for 'later goals compute correct results'"],
        })
    }
}

pub fn goal_key(goal: &str) -> String {
    // workload name without the size, or the textual goal
    if let Some(rest) = goal.strip_prefix("catch(w_") {
        let name: String = rest.chars().take_while(|c| *c != '(').collect();
        format!("w_{}", name)
    } else {
        goal.to_string()
    }
}
