//! C33 — heap writes never exceed the reserved capacity.
//!
//! Layer (a), heap-level: seeded sequences of the real `Heap` operations (through the
//! `SimHeap` wrapper) on a managed heap whose physical allocation extends past the logical
//! capacity with a canary region. Under the exact-fit growth policy the logical capacity is
//! exactly what the operation reserved, so a write of one byte beyond the reservation lands on
//! the canary: "at every fill level relative to capacity" is decided by the run. Growth
//! failures are injected too (after a failed growth nothing may be written past the old
//! capacity).
//! Layer (b), machine-level (`kind: "machine"`): the workload library runs on a real Machine with
//! all heaps managed and guarded (no failure injected); guards are verified afterwards.

use super::{panic_key, Check, Outcome, Tier};
use crate::mach::{guarded, Mach};
use crate::prng::{hash_bytes, Prng};
use crate::workloads;
use scryer_prolog::verif_hooks as vh;
use scryer_prolog::verif_hooks::{GrowPolicy, HeapCtl, SimHeap};
use serde_json::{json, Value};

pub struct C33 {
    pristine: Option<Mach>,
}

impl C33 {
    pub fn new() -> Self {
        C33 { pristine: None }
    }
}

const STR_ALPHABET: &[&str] = &["a", "b", "z", "0", " ", "é", "ß", "€", "あ", "😀", "\u{0}", "x", "y"];

fn gen_string(rng: &mut Prng) -> String {
    // every length class mod 8, NULs, multi-byte
    let target = match rng.below(6) {
        0 => rng.range(0, 9) as usize,
        1 => rng.range(5, 18) as usize,
        2 => *rng.pick(&[6usize, 7, 8, 9, 14, 15, 16, 17, 22, 23, 24, 25]),
        3 => rng.range(0, 70) as usize,
        4 => *rng.pick(&[31usize, 32, 33, 39, 40, 41, 47, 48, 55, 56, 63, 64, 65]),
        _ => rng.range(0, 30) as usize,
    };
    let with_nul = rng.chance(1, 6);
    let ascii_only = rng.chance(1, 2);
    let mut s = String::new();
    while s.len() < target {
        let c = *rng.pick(STR_ALPHABET);
        if c == "\u{0}" && !with_nul {
            continue;
        }
        if ascii_only && c.len() > 1 {
            continue;
        }
        if s.len() + c.len() > target && c.len() > 1 {
            s.push('q');
            continue;
        }
        s.push_str(c);
    }
    s
}

fn policy_json(rng: &mut Prng) -> Value {
    match rng.below(10) {
        0..=5 => json!({"exact": rng.pick(&[1u64, 1, 1, 2, 3, 8])}),
        6..=7 => json!({"small": rng.pick(&[8u64, 16, 64, 120, 256, 1024])}),
        _ => json!("production"),
    }
}

pub fn parse_policy(v: &Value) -> GrowPolicy {
    if let Some(s) = v["exact"].as_u64() {
        GrowPolicy::Exact(s as usize)
    } else if let Some(s) = v["small"].as_u64() {
        GrowPolicy::Small(s as usize)
    } else {
        GrowPolicy::Production
    }
}

impl Check for C33 {
    fn id(&self) -> &'static str {
        "C33"
    }

    fn runs(&self, tier: Tier) -> u64 {
        match tier {
            Tier::Quick => 300_000,
            Tier::Thorough => 12_000_000,
        }
    }

    fn batch(&self) -> u64 {
        5_000
    }

    fn timeout_s(&self) -> f64 {
        10.0
    }

    fn prepare(&mut self, _oracle: Option<&Value>) {
        self.pristine = Some(Mach::new());
    }

    fn gen(&mut self, rng: &mut Prng, idx: u64, _tier: Tier) -> Value {
        // one in 500 runs is a machine-level run
        if idx % 500 == 499 {
            let (w, size) = workloads::pick(rng);
            let step = *rng.pick(&[1u64, 1, 2, 5]);
            return json!({"kind": "machine", "workload": w, "size": size, "policy": {"exact": step}, "shrink_on_truncate": rng.chance(1, 2)});
        }
        let nops = rng.range(1, 40);
        let mut ops = vec![];
        let mix = rng.below(3);
        for _ in 0..nops {
            let r = rng.below(100);
            let op = if mix == 0 {
                // string heavy
                if r < 30 { json!({"op": "pstr", "s": gen_string(rng)}) }
                else if r < 45 { json!({"op": "cstr", "s": gen_string(rng)}) }
                else if r < 80 { json!({"op": "copy_pstr", "i": rng.below(8)}) }
                else if r < 90 { json!({"op": "push", "n": rng.range(1, 4)}) }
                else { json!({"op": "truncate", "permille": rng.below(1001)}) }
            } else if r < 15 { json!({"op": "push", "n": rng.range(1, 9)}) }
            else if r < 28 { json!({"op": "reserve", "n": rng.range(0, 12), "m": rng.range(0, 12)}) }
            else if r < 42 { json!({"op": "pstr", "s": gen_string(rng)}) }
            else if r < 52 { json!({"op": "cstr", "s": gen_string(rng)}) }
            else if r < 66 { json!({"op": "copy_pstr", "i": rng.below(8)}) }
            else if r < 76 { json!({"op": "copy_slice", "a": rng.below(1001), "b": rng.below(1001)}) }
            else if r < 84 { json!({"op": "append", "cells": rng.range(0, 20), "s": gen_string(rng)}) }
            else if r < 92 { json!({"op": "functor"}) }
            else { json!({"op": "truncate", "permille": rng.below(1001)}) };
            ops.push(op);
        }
        let fail = if rng.chance(1, 3) {
            json!({"at": rng.range(1, 60), "len": if rng.chance(1, 2) { 1 } else { 1_000_000u64 }})
        } else {
            Value::Null
        };
        json!({"kind": "heap", "policy": policy_json(rng), "prefill": rng.below(6), "ops": ops, "fail": fail, "tight_after_truncate": rng.chance(1, 2)})
    }

    fn exec(&mut self, case: &Value) -> Outcome {
        if case["kind"] == "machine" {
            return self.exec_machine(case);
        }
        let mut out = Outcome::default();
        let r = guarded(|| exec_heap(case, &mut out));
        vh::set_heap_ctl(HeapCtl::OFF);
        if let Err(p) = r {
            out.violate("panic", panic_key(&p.text()), p.text());
        }
        out
    }

    fn shrink(&self, case: &Value) -> Vec<Value> {
        let mut out = vec![];
        if case["kind"] != "heap" {
            return out;
        }
        let ops = case["ops"].as_array().cloned().unwrap_or_default();
        for o2 in super::shrink_list(&ops) {
            let mut c = case.clone();
            c["ops"] = json!(o2);
            out.push(c);
        }
        if !case["fail"].is_null() {
            let mut c = case.clone();
            c["fail"] = Value::Null;
            out.push(c);
        }
        if case["prefill"].as_u64().unwrap_or(0) > 0 {
            let mut c = case.clone();
            c["prefill"] = json!(0);
            out.push(c);
        }
        // shorter strings
        for (i, op) in ops.iter().enumerate() {
            if let Some(s) = op["s"].as_str() {
                if !s.is_empty() {
                    let cs: Vec<char> = s.chars().collect();
                    for cut in [cs.len() / 2, cs.len() - 1] {
                        let mut c = case.clone();
                        c["ops"][i]["s"] = json!(cs[..cut].iter().collect::<String>());
                        out.push(c);
                    }
                }
            }
        }
        out
    }

    fn describe(&self) -> Value {
        json!({
            "real": ["scryer_prolog Heap: push_cell, reserve + section writer, allocate_pstr/cstr, copy_pstr_within, copy_slice_to_end, append, truncate, functor_writer, InnerHeap::grow (policy hooked)", "machine-level runs: whole Machine with all heaps managed"],
            "stub": ["allocator verdict and growth policy (exact-fit / small / production; k-th growth attempt fails)", "canary guard region past the logical capacity"],
            "rule": "seeded sequences of <=40 heap operations x growth policy x optional growth failure (one-shot/persistent); every 500th run drives a workload on a real Machine under exact-fit growth; distinct = hash of (case, outcomes); non-trivial = at least one growth attempt happened inside an operation",
        })
    }
}

impl C33 {
    fn exec_machine(&mut self, case: &Value) -> Outcome {
        let mut out = Outcome::default();
        let mut m = match self.pristine.take() {
            Some(m) if m.alive() => m,
            _ => Mach::new(),
        };
        let w = case["workload"].as_str().unwrap_or("");
        let size = case["size"].as_u64().unwrap_or(10);
        let goal = workloads::goal(w, size);
        let policy = parse_policy(&case["policy"]);
        let ctl = HeapCtl { active: true, policy, fail_at: 0, fail_len: 0, guard_bytes: 4096, shrink_on_truncate: case["shrink_on_truncate"].as_bool().unwrap_or(false), backtrace: false };
        vh::adopt_heaps(m.machine(), 4096, true);
        vh::set_heap_ctl(ctl);
        let q = format!("catch({}, E, true).", goal);
        let r = m.all(&q);
        let st = vh::heap_stats();
        let bad = if m.alive() { vh::check_guards(m.machine()) } else { 0 };
        let st2 = vh::heap_stats();
        vh::set_heap_ctl(HeapCtl::OFF);
        out.bump("machine_runs", 1);
        out.bump("grow_attempts", st.attempts);
        out.nontrivial = st.attempts > 0;
        let mut h = 0xcbf29ce484222325u64;
        hash_bytes(&mut h, q.as_bytes());
        hash_bytes(&mut h, case["policy"].to_string().as_bytes());
        hash_bytes(&mut h, r.text().as_bytes());
        out.hash = h;
        out.transcript = format!("{} => {}", q, r.text());
        if st2.guard_violations > 0 || bad > 0 {
            out.violate("guard", format!("guard:machine:{}", w), format!("`{q}` under {:?}: {}", policy, st2.first_violation.unwrap_or_default()));
        }
        if let Some(p) = &r.panic {
            out.violate("panic", panic_key(p), format!("`{q}` under {:?}: {p}", policy));
        }
        self.pristine = Some(m);
        out
    }
}

struct Track {
    /// byte offsets of live partial strings with their text (segment up to the first NUL)
    pstrs: Vec<(usize, String)>,
}

fn exec_heap(case: &Value, out: &mut Outcome) {
    let policy = parse_policy(&case["policy"]);
    let fail = &case["fail"];
    let ctl = HeapCtl {
        active: true,
        policy,
        fail_at: 0,
        fail_len: 0,
        guard_bytes: 256,
        shrink_on_truncate: false,
        backtrace: false,
    };
    vh::set_heap_ctl(ctl);
    let mut heap = SimHeap::new();
    // reference encoding of fixnum cells, from a scratch heap
    let mut scratch = SimHeap::new();
    let mut h = 0xcbf29ce484222325u64;
    hash_bytes(&mut h, case.to_string().as_bytes());
    let mut t = String::new();
    let mut track = Track { pstrs: vec![] };

    for _ in 0..case["prefill"].as_u64().unwrap_or(0) {
        let _ = heap.push_fixnum(7);
    }
    // arm the failure only now
    if !fail.is_null() {
        let mut c = ctl;
        c.fail_at = fail["at"].as_u64().unwrap_or(0);
        c.fail_len = fail["len"].as_u64().unwrap_or(1);
        vh::set_heap_ctl(c);
    }
    let tight = case["tight_after_truncate"].as_bool().unwrap_or(false);
    let ops = case["ops"].as_array().cloned().unwrap_or_default();

    macro_rules! bail {
        ($class:expr, $key:expr, $($arg:tt)*) => {{
            out.violate($class, $key, format!($($arg)*));
            out.hash = h;
            out.transcript = t;
            return;
        }};
    }

    for (i, op) in ops.iter().enumerate() {
        let name = op["op"].as_str().unwrap_or("");
        let before: Vec<u8> = heap.bytes().to_vec();
        let len0 = heap.byte_len();
        let attempts0 = vh::heap_stats().attempts;
        let failed0 = vh::heap_stats().failed;
        let mut res: Result<(), ()> = Ok(());
        let mut desc = name.to_string();
        match name {
            "push" => {
                let n = op["n"].as_u64().unwrap_or(1);
                for k in 0..n {
                    let v = (i as i32) * 100 + k as i32;
                    let lenk = heap.byte_len();
                    res = heap.push_fixnum(v);
                    if res.is_err() {
                        if heap.byte_len() != lenk {
                            bail!("partial-write", "partial-write:push".to_string(), "op {i} push failed but the length changed");
                        }
                        if k > 0 {
                            // earlier pushes of this op succeeded; they are operations of their own
                            res = Ok(());
                        }
                        break;
                    }
                    // content: the new cell equals the reference encoding
                    scratch.truncate(0);
                    let saved = vh::heap_ctl();
                    vh::update_heap_ctl(HeapCtl::OFF);
                    let _ = scratch.push_fixnum(v);
                    vh::update_heap_ctl(saved);
                    if heap.cell_bits(heap.cell_len() - 1) != scratch.cell_bits(0) {
                        bail!("wrong-content", "wrong-content:push".to_string(), "op {i} push: cell differs from reference encoding");
                    }
                }
            }
            "reserve" => {
                let n = op["n"].as_u64().unwrap_or(0) as usize;
                let m = (op["m"].as_u64().unwrap_or(0) as usize).min(n);
                desc = format!("reserve({n},{m})");
                res = heap.reserve_and_write(n, m, i as i32 * 100);
                if res.is_ok() && heap.byte_len() != len0 + 8 * m {
                    bail!("wrong-length", "wrong-length:reserve".to_string(), "op {i} {desc}: length {} -> {}", len0, heap.byte_len());
                }
            }
            "pstr" | "cstr" => {
                let s = op["s"].as_str().unwrap_or("");
                desc = format!("{name}({:?})", s);
                let r = if name == "pstr" { heap.allocate_pstr(s) } else { heap.allocate_cstr(s) };
                match r {
                    Ok(bits) => {
                        if let Some(loc) = SimHeap::pstr_loc_of(bits) {
                            let first_seg: String = s.chars().take_while(|c| *c != '\u{0}').collect();
                            if !s.starts_with('\u{0}') {
                                let (got, _tail) = heap.scan_str(loc);
                                if got != first_seg {
                                    bail!("wrong-content", format!("wrong-content:{name}"), "op {i} {desc}: stored string reads back as {:?}", got);
                                }
                                if !first_seg.is_empty() {
                                    track.pstrs.push((loc, first_seg));
                                }
                            }
                        }
                    }
                    Err(()) => res = Err(()),
                }
            }
            "copy_pstr" => {
                if track.pstrs.is_empty() {
                    continue;
                }
                let k = op["i"].as_u64().unwrap_or(0) as usize % track.pstrs.len();
                let (loc, text) = track.pstrs[k].clone();
                desc = format!("copy_pstr_within({loc}) {:?}", text);
                match heap.copy_pstr_within(loc) {
                    Ok(_tail) => {
                        let (got, _) = heap.scan_str(len0);
                        if got != text {
                            bail!("wrong-content", "wrong-content:copy_pstr".to_string(), "op {i} {desc}: copy reads back as {:?}", got);
                        }
                        track.pstrs.push((len0, text));
                    }
                    Err(()) => res = Err(()),
                }
            }
            "copy_slice" => {
                let cells = heap.cell_len();
                if cells == 0 {
                    continue;
                }
                let a = (op["a"].as_u64().unwrap_or(0) as usize * cells / 1000).min(cells);
                let b = (op["b"].as_u64().unwrap_or(0) as usize * cells / 1000).min(cells);
                let (a, b) = (a.min(b), a.max(b).min(a.min(b) + 24));
                desc = format!("copy_slice_to_end({a}..{b})");
                match heap.copy_slice_to_end(a, b) {
                    Ok(()) => {
                        let now = heap.bytes();
                        if now.len() != len0 + 8 * (b - a) || now[len0..] != before[8 * a..8 * b] {
                            bail!("wrong-content", "wrong-content:copy_slice".to_string(), "op {i} {desc}: copied region differs from its source");
                        }
                    }
                    Err(()) => res = Err(()),
                }
            }
            "append" => {
                let mut other = SimHeap::new();
                let cells = op["cells"].as_u64().unwrap_or(0);
                // the other heap is built without failure injection interfering: count its attempts apart
                let saved = vh::heap_ctl();
                vh::update_heap_ctl(HeapCtl::OFF);
                for k in 0..cells {
                    let _ = other.push_fixnum(k as i32);
                }
                let _ = other.allocate_cstr(op["s"].as_str().unwrap_or(""));
                vh::update_heap_ctl(saved);
                desc = format!("append({} bytes)", other.byte_len());
                if other.byte_len() == 0 {
                    // appending nothing touches no memory; on a never-allocated heap the crate
                    // builds an empty slice from a null pointer, which is outside this property
                    continue;
                }
                match heap.append(&other) {
                    Ok(()) => {
                        let now = heap.bytes();
                        if now.len() != len0 + other.byte_len() || now[len0..] != *other.bytes() {
                            bail!("wrong-content", "wrong-content:append".to_string(), "op {i} {desc}: appended region differs from the other heap");
                        }
                    }
                    Err(()) => res = Err(()),
                }
                if other.guard_violation().is_some() {
                    bail!("guard", "guard:append-source".to_string(), "op {i} {desc}: source heap guard overwritten");
                }
            }
            "functor" => {
                res = heap.write_error_functor();
                if res.is_ok() && heap.byte_len() <= len0 {
                    bail!("wrong-length", "wrong-length:functor".to_string(), "op {i} functor: nothing written");
                }
            }
            "truncate" => {
                let cells = heap.cell_len();
                let to = op["permille"].as_u64().unwrap_or(0) as usize * cells / 1000;
                desc = format!("truncate({to})");
                heap.truncate(to);
                track.pstrs.retain(|(loc, s)| loc + s.len() + 16 <= to * 8);
                if tight {
                    // the harness knows nothing above the new length is live: tighten the
                    // capacity and re-arm the canary right above it
                    heap.adopt(256, true);
                }
            }
            _ => continue,
        }

        let st = vh::heap_stats();
        let attempts = st.attempts - attempts0;
        let failed = st.failed - failed0;
        out.bump("grow_attempts", attempts);
        out.bump("fault.grow_failed", failed);
        out.bump("ops", 1);
        if attempts > 0 {
            out.nontrivial = true;
        }
        t.push_str(&format!("{}{}{};", desc, if res.is_err() { "!ERR" } else { "" }, if attempts > 0 { format!("[g{attempts}]") } else { String::new() }));
        hash_bytes(&mut h, &[res.is_err() as u8]);
        hash_bytes(&mut h, &(heap.byte_len() as u64).to_le_bytes());

        // ---- invariants after every operation
        if heap.byte_len() > heap.byte_cap() {
            bail!("len-exceeds-cap", format!("len-exceeds-cap:{name}"), "op {i} {desc}: byte_len {} > byte_cap {}", heap.byte_len(), heap.byte_cap());
        }
        if st.guard_violations > 0 || heap.guard_violation().is_some() {
            bail!("guard", format!("guard:{name}"), "op {i} {desc}: bytes past the reserved capacity were written ({}); len {} cap {} policy {:?}", st.first_violation.clone().unwrap_or_else(|| format!("offset {:?}", heap.guard_violation())), heap.byte_len(), heap.byte_cap(), policy);
        }
        if name != "truncate" {
            let now = heap.bytes();
            if now.len() < len0 || now[..len0] != before[..] {
                bail!("prefix-modified", format!("prefix-modified:{name}"), "op {i} {desc}: bytes below the old length changed");
            }
            if res.is_err() {
                if failed == 0 {
                    bail!("spurious-error", format!("spurious-error:{name}"), "op {i} {desc}: failed although no growth failure was injected");
                }
                if now.len() != len0 {
                    bail!("partial-write", format!("partial-write:{name}"), "op {i} {desc}: failed but the length changed {} -> {}", len0, now.len());
                }
            }
        }
    }
    out.hash = h;
    out.transcript = t;
}
