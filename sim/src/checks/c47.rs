//! C47 — parsing a file lazily equals parsing its contents.
//!
//! phrase_from_file/3 reads its file in steps of 4 096 characters through a stream whose
//! reader refills 8 192 bytes at a time, re-positioning the stream before every step. A case
//! is a file content laid out around those two boundaries (runs of 1/2/3/4-byte characters so
//! that characters straddle them) and a grammar from a fixed family (consume everything, stop
//! early, need the whole text, find every position of a character — backtracking across step
//! boundaries —, fail, throw mid-way, `seq(A), seq(A)`). The grammar runs three times: over
//! the full character list with phrase/2, over the file, and over the file with **short
//! reads** injected below the stream from a seeded schedule. Oracle (differential): all three
//! give the same solutions / failure / exception; afterwards no stream on the file is left
//! open (reported as a probe).

use super::{panic_key, Check, Outcome, Tier};
use crate::mach::{Ans, Mach};
use crate::prng::{hash_bytes, Prng};
use scryer_prolog::verif_hooks as vh;
use serde_json::{json, Value};

pub struct C47 {
    m: Option<Mach>,
    dir: String,
}

impl C47 {
    pub fn new() -> Self {
        C47 { m: None, dir: String::new() }
    }
}

const FILL: &[u32] = &['a' as u32, 'b' as u32, ' ' as u32, '\n' as u32, 0xE9, 0x20AC, 0x1F600, 'x' as u32];

fn width(c: u32) -> u64 {
    char::from_u32(c).map(|x| x.len_utf8() as u64).unwrap_or(1)
}

impl Check for C47 {
    fn id(&self) -> &'static str {
        "C47"
    }

    fn runs(&self, tier: Tier) -> u64 {
        match tier {
            Tier::Quick => 1_600,
            Tier::Thorough => 150_000,
        }
    }

    fn batch(&self) -> u64 {
        100
    }

    fn timeout_s(&self) -> f64 {
        60.0
    }

    fn prepare(&mut self, _oracle: Option<&Value>) {
        self.m = Some(Mach::new());
    }

    fn gen(&mut self, rng: &mut Prng, _idx: u64, _tier: Tier) -> Value {
        // layout: runs (code, count); total sized around a boundary
        let class = rng.below(8);
        let mut spec: Vec<(u32, u64)> = vec![];
        let mark = 'Z' as u32; // the character grammars look for
        match class {
            0 => {
                // small
                for _ in 0..rng.range(0, 6) {
                    spec.push((*rng.pick(FILL), rng.range(1, 8)));
                }
            }
            1..=4 => {
                // characters: k * 4096 +- d
                let k = rng.range(1, 3);
                let d = rng.below(17) as i64 - 8;
                let total = (k as i64 * 4096 + d).max(1) as u64;
                let pre = total.saturating_sub(rng.range(1, 12));
                let c0 = *rng.pick(FILL);
                spec.push((c0, pre / 2));
                spec.push((*rng.pick(FILL), pre - pre / 2));
                let mut left = total - pre;
                while left > 0 {
                    let n = rng.range(1, left);
                    spec.push((*rng.pick(FILL), n));
                    left -= n;
                }
            }
            _ => {
                // bytes: first run ends a few bytes before 8192, then multi-byte characters
                let c0 = *rng.pick(&['a' as u32, 'x' as u32, 0xE9]);
                let w = width(c0);
                let n0 = (8192 - rng.below(6)) / w;
                spec.push((c0, n0));
                for _ in 0..rng.range(1, 5) {
                    spec.push((*rng.pick(&[0xE9u32, 0x20AC, 0x1F600, 'b' as u32]), rng.range(1, 4)));
                }
            }
        }
        // sprinkle the marker character at 0..3 places (also at run borders = near boundaries)
        for _ in 0..rng.below(4) {
            let at = rng.below(spec.len() as u64 + 1) as usize;
            spec.insert(at, (mark, 1));
        }
        let total: u64 = spec.iter().map(|x| x.1).sum();
        let g = match rng.below(11) {
            0 | 1 => json!({"g": "all"}),
            2 => json!({"g": "prefix", "n": rng.below(total + 2).min(total + 1)}),
            3 => json!({"g": "prefix", "n": 4090 + rng.below(12)}),
            4 => json!({"g": "count", "k": mark}),
            5 => {
                // the true suffix, or a wrong one
                let mut tail: Vec<u32> = vec![];
                for (c, n) in spec.iter().rev() {
                    for _ in 0..(*n).min(3) {
                        if tail.len() < 3 {
                            tail.insert(0, *c);
                        }
                    }
                    if tail.len() >= 3 {
                        break;
                    }
                }
                if rng.chance(1, 3) {
                    tail.push('q' as u32);
                }
                json!({"g": "suffix", "ks": tail})
            }
            6 | 7 => json!({"g": "pos", "k": mark}),
            8 => json!({"g": "has", "k": *rng.pick(&[mark, 'q' as u32])}),
            9 => json!({"g": "throw_after", "n": rng.below(total + 1)}),
            _ => {
                if total <= 64 {
                    json!({"g": "twice"})
                } else {
                    json!({"g": "count", "k": mark})
                }
            }
        };
        // 1 case in 6: type(binary) - the file's bytes are the characters
        let binary = rng.chance(1, 6);
        if binary {
            for x in spec.iter_mut() {
                if x.0 > 255 || x.0 == mark {
                    x.0 = if x.0 == mark { mark } else { *rng.pick(&[0u32, 10, 128, 200, 255, 65]) };
                }
            }
        }
        let spec_json: Vec<Value> = spec.iter().map(|(c, n)| json!([c, n])).collect();
        json!({"binary": binary, "spec": spec_json, "grammar": g, "short_state": rng.next() | 1, "short_max": *rng.pick(&[1u64, 2, 3, 7, 64, 1000, 8191])})
    }

    fn exec(&mut self, case: &Value) -> Outcome {
        let mut out = Outcome::default();
        let mut m = match self.m.take() {
            Some(m) if m.alive() => m,
            _ => Mach::new(),
        };
        if self.dir.is_empty() {
            self.dir = super::c19::scratch_dir();
        }
        let file = format!("{}/c47.txt", self.dir);
        let spec: Vec<(u32, u64)> = case["spec"].as_array().map(|a| a.iter().map(|p| (p[0].as_u64().unwrap_or(97) as u32, p[1].as_u64().unwrap_or(0))).collect()).unwrap_or_default();
        let mut text = String::new();
        for (c, n) in spec.iter() {
            if let Some(ch) = char::from_u32(*c) {
                for _ in 0..*n {
                    text.push(ch);
                }
            }
        }
        let binary = case["binary"].as_bool().unwrap_or(false);
        let raw: Vec<u8> = if binary { spec.iter().flat_map(|(c, n)| std::iter::repeat(*c as u8).take(*n as usize)).collect() } else { text.as_bytes().to_vec() };
        if std::fs::write(&file, &raw).is_err() {
            eprintln!("cannot write scratch file {file}");
            std::process::exit(2);
        }
        let g = &case["grammar"];
        let gtxt = match g["g"].as_str().unwrap_or("all") {
            "all" => "all(L, T)".to_string(),
            "prefix" => format!("prefix({}, Ks)", g["n"]),
            "count" => format!("count({}, N)", g["k"]),
            "suffix" => format!("suffix([{}])", g["ks"].as_array().map(|a| a.iter().map(|x| x.to_string()).collect::<Vec<_>>().join(",")).unwrap_or_default()),
            "pos" => format!("pos({}, L)", g["k"]),
            "has" => format!("has({})", g["k"]),
            "throw_after" => format!("throw_after({})", g["n"]),
            _ => "twice(L)".to_string(),
        };
        let spec_txt: Vec<String> = spec.iter().map(|(c, n)| format!("{c}-{n}")).collect();
        let q_mem = format!("c47_mem({gtxt}, [{}], R).", spec_txt.join(","));
        let q_file = format!("c47_file({gtxt}, '{file}', [{}], R), c47_open_streams('{file}', Open).", if binary { "type(binary)" } else { "" });
        let mut h = 0xcbf29ce484222325u64;
        hash_bytes(&mut h, q_mem.as_bytes());
        out.bump("chars_in_files", text.chars().count() as u64);

        let mut results: Vec<String> = vec![];
        for mode in 0..3 {
            let q = if mode == 0 { &q_mem } else { &q_file };
            if mode == 2 {
                vh::set_short_reads(case["short_state"].as_u64().unwrap_or(1) | 1, case["short_max"].as_u64().unwrap_or(3) as usize);
            }
            let t0 = vh::ticks();
            vh::set_tick_budget(t0 + 60_000_000);
            let r = m.all(q);
            vh::set_tick_budget(u64::MAX);
            out.bump("sim_ticks", vh::ticks() - t0);
            if mode == 2 {
                let n = vh::short_reads_done();
                out.bump("fault.short_reads_served", n);
                if n > 0 {
                    out.nontrivial = true;
                }
                vh::set_short_reads(0, 0);
            }
            let what = ["phrase/2 over the character list", "phrase_from_file/3", "phrase_from_file/3 under short reads"][mode];
            if let Some(p) = &r.panic {
                let class = if p.contains("TickBudgetExceeded") { "hang" } else { "panic" };
                out.violate(class, panic_key(p), format!("{what}: `{}`: {p}", &q[..q.len().min(400)]));
                return out;
            }
            let b = match r.items.first() {
                Some(Ans::Bind(b)) => b.replace('"', ""),
                other => {
                    out.violate("wrong-outcome", "no-answer", format!("{what}: `{}` gave {:?}", &q[..q.len().min(400)], other.map(|a| a.text())));
                    self.m = Some(m);
                    return out;
                }
            };
            let parts = super::c40::split_top(&b, ';');
            let get = |n: &str| parts.iter().find_map(|p| p.strip_prefix(n).map(|x| x.to_string())).unwrap_or_default();
            results.push(get("R="));
            if mode > 0 {
                let open = get("Open=");
                if open != "0" {
                    out.bump("probe.stream_left_open_after_phrase_from_file", 1);
                }
            }
        }
        hash_bytes(&mut h, results[0].as_bytes());
        out.hash = h;
        out.transcript = format!("{}\n => {}", &q_mem[..q_mem.len().min(300)], &results[0][..results[0].len().min(300)]);
        let short = |s: &str| -> String { s.chars().take(400).collect() };
        if results[1] != results[0] {
            out.violate("lazy-differs", "file-differs-from-list", format!("grammar c47_g({gtxt}) over {} characters ({} bytes), layout [{}]\n phrase/2 over the full character list gives {}\n phrase_from_file/3 gives {}", text.chars().count(), text.len(), spec_txt.join(","), short(&results[0]), short(&results[1])));
        } else if results[2] != results[0] {
            out.violate("lazy-differs", "file-under-short-reads-differs", format!("grammar c47_g({gtxt}) over {} characters ({} bytes), layout [{}], short reads of at most {} bytes\n phrase/2 over the full character list gives {}\n phrase_from_file/3 gives {}", text.chars().count(), text.len(), spec_txt.join(","), case["short_max"], short(&results[0]), short(&results[2])));
        } else {
            out.bump("cases_agreeing", 1);
            if results[0].starts_with("ex(") {
                out.bump("grammars_throwing", 1);
            } else if results[0] == "sols([])" {
                out.bump("grammars_failing", 1);
            }
        }
        self.m = Some(m);
        out
    }

    fn shrink(&self, case: &Value) -> Vec<Value> {
        let mut out = vec![];
        let spec = case["spec"].as_array().cloned().unwrap_or_default();
        for s2 in super::shrink_list(&spec) {
            let mut c = case.clone();
            c["spec"] = json!(s2);
            out.push(c);
        }
        // shorter runs
        for (i, p) in spec.iter().enumerate() {
            let n = p[1].as_u64().unwrap_or(0);
            for n2 in [n / 2, n.saturating_sub(1)] {
                if n2 < n && n2 > 0 {
                    let mut s2 = spec.clone();
                    s2[i] = json!([p[0], n2]);
                    let mut c = case.clone();
                    c["spec"] = json!(s2);
                    out.push(c);
                }
            }
        }
        out
    }

    fn describe(&self) -> Value {
        json!({
            "real": ["whole Machine: library(pio) phrase_from_file/3 (lazy list via freeze/2, set_stream_position/2, get_n_chars/3), library(dcgs), InputFileStream + CharReader refill", "the operating system's file (scratch file under /verif/scratch)"],
            "stub": ["how many bytes each read() of the file returns (short-read schedule below InputFileStream::read)"],
            "rule": "file contents as runs of 1/2/3/4-byte characters sized k*4096 characters +- 8 or 8192 bytes +- 6 (or small), with a marker character sprinkled at run borders; grammar from a family of 8 (consume all, prefix then ..., count, suffix, every position of a character, member, throw after n characters, seq(A),seq(A)); run over the character list, over the file, and over the file under short reads (max chunk 1..8191); distinct = hash of layout, grammar and result; non-trivial = a short read was served",
            "assumptions": ["the oracle is differential (same grammar, same text, three ways of delivering it); the grammars themselves are not modelled", "a stream left open after phrase_from_file/3 is reported as a probe, not asserted (the statement does not mention it)"],
        })
    }
}
