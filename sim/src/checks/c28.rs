//! C28 — embedded queries return faithful answers across a query history.
//!
//! A run is one history on a fresh machine image: a sequence of `run_query` calls, each
//! consumed for `take` items and then dropped. Oracle: per query, the items equal the prefix
//! of the answer stream the same query gives on a fresh machine (computed in a forked child of
//! the pristine image); side-effect queries are predicted by a log model; ground answers are
//! cross-checked against `findall/3` run inside Prolog. Fault-injecting configuration: an
//! interrupt injected into one `next()`; relaxation: that query may end with the interrupt ball.

use super::{panic_key, Check, Outcome, Tier};
use crate::mach::{Ans, Mach, QOut};
use crate::prng::{hash_bytes, Prng};
use scryer_prolog::verif_hooks as vh;
use serde_json::{json, Value};
use std::collections::BTreeMap;

#[derive(Clone, Copy, PartialEq)]
enum Eff {
    None,
    /// the i-th computed answer appends `vals[i]` to the log
    Log(&'static [i64]),
    Clear,
    /// observer: expected bindings `L=<log>`
    ReadLog,
    /// non-backtrackable global variable `pk` := n (persists across queries)
    BbPut(i64),
    /// observer of `pk`
    BbGet,
}

struct PoolQ {
    text: &'static str,
    eff: Eff,
    /// variables to cross-check with findall (answers must be ground)
    vars: &'static [&'static str],
}

const fn q(text: &'static str) -> PoolQ {
    PoolQ { text, eff: Eff::None, vars: &[] }
}
const fn qv(text: &'static str, vars: &'static [&'static str]) -> PoolQ {
    PoolQ { text, eff: Eff::None, vars }
}

const POOL: &[PoolQ] = &[
    // deterministic
    qv("X = 1.", &["X"]),
    q("true."),
    qv("X = f(a,\"str\",[1,2,3]), Y = 2.5.", &["X", "Y"]),
    qv("X is 2^100 + 1.", &["X"]),
    qv("X is 7 rdiv 3.", &["X"]),
    qv("atom_length(abcdef, N).", &["N"]),
    qv("length(L, 3), L = [a|_].", &[]),
    qv("atom_chars(X, [h,e,l,l,o]), atom_concat(X, ' world', Y).", &["X", "Y"]),
    qv("findall(X-Y, (member(X,[1,2]), member(Y,[a,b])), L).", &["L"]),
    qv("sort([c,a,b,a], S), keysort([b-1,a-2], M).", &["S", "M"]),
    qv("copy_term(f(X,Y,X), C).", &[]),
    qv("X = \"a partial string that is longer than a cell\", atom_chars(A, X).", &["X", "A"]),
    // nondeterministic, no trailing choice point
    qv("X = 1 ; X = 2.", &["X"]),
    qv("member(X, [a,b,c]).", &["X"]),
    qv("between(1, 4, X), Y is X * X.", &["X", "Y"]),
    qv("member(X, [1,2,3]), X > 1.", &["X"]),
    // trailing choice point that fails
    qv("member(X, [1,2,3]), X < 3.", &["X"]),
    qv("( X = 1 ; X = 2 ; fail ).", &["X"]),
    qv("append(X, Y, [1,2]).", &["X", "Y"]),
    qv("select(X, [a,b,c], R).", &["X", "R"]),
    // no variables, several solutions
    q("member(_, [1,2])."),
    q("( true ; true ; fail )."),
    // failing
    q("fail."),
    q("member(x, [a,b,c])."),
    q("X = 1, X = 2."),
    // throwing: error terms and non-error balls
    q("throw(my_ball)."),
    q("throw(ball(with, \"string\", [1,2|_], 12345678901234567890))."),
    q("atom_length(X, Y)."),
    q("atom_length(1, 2, 3)."),
    q("X is foo + 1."),
    q("catch(atom_length(X, Y), foo, true)."),
    q("catch(throw(inner), outer, true)."),
    q("undefined_predicate_xyz(1)."),
    q("catch(throw(x), x, true)."),
    qv("catch(throw(x), B, true).", &["B"]),
    // throwing after k answers
    q("member(X, [1,2,3]), ( X == 3 -> throw(third) ; true )."),
    q("vh_throw_after([a,b,c], b)."),
    q("between(1, 3, X), Y is 6 / (3 - X)."),
    // open frames when abandoned
    q("setup_call_cleanup(true, member(X, [1,2,3]), true)."),
    // several pending cleanups at once (nested, in a conjunction), with visible cleanups
    q("setup_call_cleanup(true, setup_call_cleanup(true, member(X, [1,2]), true), true)."),
    q("setup_call_cleanup(true, member(X, [1,2]), true), setup_call_cleanup(true, member(Y, [a,b]), true)."),
    q("setup_call_cleanup(true, setup_call_cleanup(true, (member(X, [1,2,3]), setup_call_cleanup(true, member(Y, [p,q]), true)), true), true)."),
    // queries that execute cuts (a stale cleaner or choice point would be acted upon here)
    qv("member(X, [1,2,3]), X > 1, !.", &["X"]),
    qv("once(member(X, [a,b])).", &["X"]),
    qv("( member(X, [1,2]) -> Y = X ; Y = none ).", &["X", "Y"]),
    qv("\\+ member(z, [a,b]), X = ok.", &["X"]),
    qv("c40_cutty(X).", &["X"]),
    qv("setup_call_cleanup(true, member(X, [1,2,3]), true), X >= 2, !.", &["X"]),
    q("call_with_inference_limit(member(X, [1,2,3]), 1000, R)."),
    q("catch(member(X, [1,2,3]), _, true)."),
    q("freeze(V, true), member(V, [1,2])."),
    q("dif(X, a), member(X, [a,b,c])."),
    q("findall(X, member(X,[1,2,3]), L), member(Y, L)."),
    q("call_with_inference_limit(vh_nat(_), 50, R)."),
    // infinite streams (only ever partially consumed)
    q("vh_nat(N)."),
    q("repeat."),
    // side effects with a model
    PoolQ { text: "member(X, [1,2,3]), assertz(lg(X)).", eff: Eff::Log(&[1, 2, 3]), vars: &[] },
    PoolQ { text: "( assertz(lg(10)) ; assertz(lg(20)) ).", eff: Eff::Log(&[10, 20]), vars: &[] },
    PoolQ { text: "assertz(lg(7)).", eff: Eff::Log(&[7]), vars: &[] },
    PoolQ { text: "retractall(lg(_)).", eff: Eff::Clear, vars: &[] },
    PoolQ { text: "findall(X, lg(X), L).", eff: Eff::ReadLog, vars: &[] },
    // global variables: backtrackable assignments are undone when the query is left,
    // non-backtrackable ones persist (modelled)
    q("bb_b_put(vk, 42), member(X, [1,2,3])."),
    q("bb_b_put(vk, f(Y, \"s\")), ( X = 1 ; X = 2 )."),
    q("bb_get(vk, V)."),
    q("bb_b_put(vk, 1), bb_get(vk, V), member(X, [a,b]), bb_b_put(vk, X)."),
    PoolQ { text: "bb_put(pk, 7).", eff: Eff::BbPut(7), vars: &[] },
    PoolQ { text: "bb_put(pk, 8), member(X, [1,2]).", eff: Eff::BbPut(8), vars: &[] },
    PoolQ { text: "bb_get(pk, V).", eff: Eff::BbGet, vars: &[] },
    // attributed variables and the attribute goal queue across an abandoned query
    q("freeze(X, member(Y, [1,2,3])), X = go."),
    q("dif(A, B), member(A-B, [1-1, 1-2, 2-2, 3-4])."),
];

const INFINITE: &[&str] = &["vh_nat(N).", "repeat."];

const INTERRUPT_BALL: &str = "\"error\"(\"$interrupt_thrown\",\"/\"(\"repl\",0))";

pub struct C28 {
    pristine: Option<Mach>,
    /// fresh-machine answer stream per pool query (None for effect-observers)
    fresh: Vec<Option<QOut>>,
    /// ticks a fresh drain takes (for placing interrupts)
    fresh_ticks: Vec<u64>,
    /// model of the lg/1 log on the current machine
    log: Vec<i64>,
    /// model of the global variable pk
    bb: Option<i64>,
}

impl C28 {
    pub fn new() -> Self {
        C28 { pristine: None, fresh: vec![], fresh_ticks: vec![], log: vec![], bb: None }
    }
}

fn is_ground_text(s: &str) -> bool {
    // variables print as bare identifiers starting with '_' or uppercase outside quotes
    let mut in_q = false;
    let mut prev = '(';
    let mut esc = false;
    for c in s.chars() {
        if in_q {
            if esc {
                esc = false;
            } else if c == '\\' {
                esc = true;
            } else if c == '"' {
                in_q = false;
            }
        } else if c == '"' {
            in_q = true;
        } else if (c == '_' || c.is_ascii_uppercase()) && matches!(prev, '(' | ',' | '[' | '=' | '|') {
            return false;
        }
        prev = c;
    }
    true
}

impl Check for C28 {
    fn id(&self) -> &'static str {
        "C28"
    }

    fn runs(&self, tier: Tier) -> u64 {
        match tier {
            Tier::Quick => 6_000,
            Tier::Thorough => 400_000,
        }
    }

    fn timeout_s(&self) -> f64 {
        30.0
    }

    fn batch(&self) -> u64 {
        128
    }

    fn make_oracle(&mut self) -> Value {
        let mut pristine = Mach::new();
        // Expected streams: each pool query drained on a *fresh* machine, i.e. in a forked
        // child of the pristine image on which it is the first query after boot.
        let mut rows = vec![];
        for pq in POOL {
            let cap = if INFINITE.contains(&pq.text) { 6 } else { usize::MAX };
            let (buf, _) = crate::forkutil::in_child(60_000, |fd| {
                let t0 = vh::ticks();
                let r = pristine.run(pq.text, cap);
                let dt = vh::ticks() - t0;
                let j = json!({"q": pq.text, "out": r.to_json(), "ticks": dt});
                crate::forkutil::write_all_fd(fd, j.to_string().as_bytes());
            });
            let v: Value = serde_json::from_slice(&buf).unwrap_or(json!({"q": pq.text, "out": Value::Null}));
            rows.push(v);
        }
        json!({"fresh": rows})
    }

    fn prepare(&mut self, oracle: Option<&Value>) {
        let rows = oracle.and_then(|o| o["fresh"].as_array().cloned()).unwrap_or_default();
        for pq in POOL {
            match rows.iter().find(|r| r["q"].as_str() == Some(pq.text)) {
                Some(v) if !v["out"].is_null() => {
                    self.fresh.push(Some(QOut::from_json(&v["out"])));
                    self.fresh_ticks.push(v["ticks"].as_u64().unwrap_or(0));
                }
                _ => {
                    self.fresh.push(None);
                    self.fresh_ticks.push(0);
                }
            }
        }
        self.pristine = Some(Mach::new());
    }

    fn gen(&mut self, rng: &mut Prng, _idx: u64, _tier: Tier) -> Value {
        let n = rng.range(1, 12) as usize;
        let fault_cfg = rng.chance(1, 4);
        let mut ops = vec![];
        // swarm: restrict the pool of this run to a random subset
        let sub: Vec<usize> = {
            let k = rng.range(3, POOL.len() as u64) as usize;
            let mut all: Vec<usize> = (0..POOL.len()).collect();
            rng.shuffle(&mut all);
            all.truncate(k);
            all
        };
        for _ in 0..n {
            let qi = *rng.pick(&sub);
            let take = match rng.below(10) {
                0 => 0,
                1 | 2 => 1,
                3 => 2,
                4 => 3,
                5 => rng.range(1, 6),
                _ => 99, // all (+1)
            };
            let take = if INFINITE.contains(&POOL[qi].text) { take.min(5) } else { take };
            ops.push(json!({"q": POOL[qi].text, "take": take}));
        }
        let fault = if fault_cfg {
            let at = rng.below(n as u64);
            json!({"op": at, "next": rng.below(3), "tick_permille": rng.below(1000)})
        } else {
            Value::Null
        };
        json!({"ops": ops, "fault": fault})
    }

    fn exec(&mut self, case: &Value) -> Outcome {
        let mut out = Outcome::default();
        let mut m = match self.pristine.take() {
            Some(m) if m.alive() => m,
            _ => {
                self.log.clear();
                self.bb = None;
                Mach::new()
            }
        };
        let t_start = vh::ticks();
        let ops = case["ops"].as_array().cloned().unwrap_or_default();
        let fault = &case["fault"];
        let mut log: Vec<i64> = std::mem::take(&mut self.log);
        let mut h: u64 = 0xcbf29ce484222325;
        let mut transcript = String::new();
        for (i, op) in ops.iter().enumerate() {
            let text = op["q"].as_str().unwrap_or("true.").to_string();
            let take = op["take"].as_u64().unwrap_or(99) as usize;
            let pq = POOL.iter().find(|p| p.text == text);
            let eff = pq.map(|p| p.eff).unwrap_or(Eff::None);

            // expectation: the stream of a fresh machine (None = the query crashed a fresh machine)
            let qi = POOL.iter().position(|p| p.text == text);
            let (fresh, fresh_ticks) = match qi.and_then(|qi| self.fresh.get(qi).cloned().flatten().map(|f| (f, self.fresh_ticks[qi]))) {
                Some(x) => x,
                None => {
                    out.violate("fresh-crash", format!("fresh-crash:{}", text), format!("`{text}` crashes or hangs a fresh machine"));
                    break;
                }
            };
            if let Some(p) = &fresh.panic {
                out.violate("panic", panic_key(p), format!("`{text}` on a fresh machine: {p}"));
                break;
            }

            // fault placement
            let mut fault_here = false;
            let mut fired_at = 0u64;
            let got = if !fault.is_null() && fault["op"].as_u64() == Some(i as u64) {
                fault_here = true;
                let which_next = fault["next"].as_u64().unwrap_or(0) as usize;
                let permille = fault["tick_permille"].as_u64().unwrap_or(0);
                let span = fresh_ticks.max(1);
                let n = 1 + span * permille / 1000;
                let r = m.run_with(&text, take, |k| {
                    if k == which_next {
                        vh::interrupt_at(vh::ticks() + n);
                    }
                });
                fired_at = vh::interrupt_fired_at();
                vh::interrupt_at(0);
                vh::clear_global_interrupt();
                r
            } else {
                m.run(&text, take)
            };
            let fired = fault_here && fired_at != 0;
            if fired {
                out.bump("fault.interrupt_fired", 1);
                out.nontrivial = true;
            } else if fault_here {
                out.bump("fault.interrupt_armed_not_fired", 1);
            }

            transcript.push_str(&format!("{} <take {}> => {}\n", text, take, got.text()));
            hash_bytes(&mut h, text.as_bytes());
            hash_bytes(&mut h, &[take as u8]);
            hash_bytes(&mut h, got.text().as_bytes());

            if let Some(p) = &got.panic {
                out.violate("panic", panic_key(p), format!("op {i} `{text}` take {take}: {p}"));
                break;
            }

            // expected items
            let mut want_items: Vec<Ans> = fresh.items.iter().take(take).cloned().collect();
            let want_ended = take > fresh.items.len() && fresh.ended;
            if eff == Eff::ReadLog {
                let l: Vec<String> = log.iter().map(|x| x.to_string()).collect();
                let l = if log.is_empty() { "L=[]".to_string() } else { format!("L=[{}]", l.join(",")) };
                want_items = vec![Ans::Bind(l)].into_iter().take(take).collect();
            }
            let mut want_ended = want_ended;
            if eff == Eff::BbGet {
                want_items = match self.bb {
                    Some(n) => vec![Ans::Bind(format!("V={}", n))],
                    None => vec![Ans::False],
                }
                .into_iter()
                .take(take)
                .collect();
                want_ended = take > 1;
            }
            let want = QOut { items: want_items, ended: want_ended, panic: None };

            // a query with a catch-all of its own may legitimately pick the interrupt up and carry
            // on with its recovery goal
            let own_catch_all = text.contains(", _, ") || text.contains("), B, ");
            let ok = if fired && own_catch_all {
                out.bump("interrupt_met_the_query_s_own_catch_all", 1);
                got.panic.is_none()
            } else if fired {
                // relaxation: the faulted query may end with the interrupt ball, nothing else
                faulted_ok(&got, &want)
            } else {
                got == want
            };
            if !ok {
                let class = classify(&got, &want);
                out.violate(
                    class,
                    format!("{}:{}", class, text),
                    format!("op {i} `{text}` take {take}: got [{}] want [{}]{}", got.text(), want.text(), if fired { " (interrupt fired)" } else { "" }),
                );
                break;
            }
            if take > 0 && take < fresh.items.len() {
                out.nontrivial = true;
                out.bump("partial_drops", 1);
            }
            if got.items.iter().any(|a| a.is_exception()) {
                out.bump("exceptions_reported", 1);
            }

            // model update (answers actually computed)
            match eff {
                Eff::Log(vals) => {
                    let computed = got.items.iter().filter(|a| !matches!(a, Ans::False) && !a.is_exception()).count();
                    log.extend(vals.iter().take(computed));
                    if fired && computed < take.min(vals.len()) {
                        // the interrupt may have struck right after the assertz ran: resync from the machine
                        let r = m.all("findall(X, lg(X), L).");
                        log = parse_log(&r);
                    }
                }
                Eff::BbPut(n) => {
                    let computed = got.items.iter().any(|a| !matches!(a, Ans::False) && !a.is_exception());
                    if computed {
                        self.bb = Some(n);
                    } else if fired {
                        // the interrupt may have struck right after bb_put ran: resync
                        let r = m.all("bb_get(pk, V).");
                        self.bb = match r.items.first() {
                            Some(Ans::Bind(b)) => b.trim_start_matches("V=").parse().ok(),
                            _ => None,
                        };
                    }
                }
                Eff::Clear => {
                    let computed = !got.items.is_empty();
                    if computed && !got.items[0].is_exception() {
                        log.clear();
                    } else if fired {
                        let r = m.all("findall(X, lg(X), L).");
                        log = parse_log(&r);
                    }
                }
                _ => {}
            }

            // cross-check ground answers against findall inside Prolog (unfaulted, drained queries)
            if let Some(p) = pq {
                if !p.vars.is_empty() && !fired && got.ended {
                    let goal = text.trim_end_matches('.');
                    let tmpl = p.vars.join(",");
                    let fq = format!("findall([{}], ({}), VerifL).", tmpl, goal);
                    let r = m.all(&fq);
                    let mut rows = vec![];
                    let mut ground = true;
                    for a in got.items.iter() {
                        if let Ans::Bind(b) = a {
                            // b is "X=..;Y=.." in BTreeMap (sorted) order; rebuild in template order
                            let map = split_bindings(b);
                            let mut row = vec![];
                            for v in p.vars {
                                match map.get(*v) {
                                    Some(t) => row.push(t.clone()),
                                    None => ground = false,
                                }
                            }
                            if !is_ground_text(b) {
                                ground = false;
                            }
                            rows.push(format!("[{}]", row.join(",")));
                        }
                    }
                    if ground {
                        let want = format!("VerifL=[{}]", rows.join(","));
                        let ok = matches!(r.items.first(), Some(Ans::Bind(b)) if *b == want || (rows.is_empty() && b == "VerifL=[]"));
                        out.bump("findall_crosschecks", 1);
                        if !ok {
                            out.violate("findall-mismatch", format!("findall-mismatch:{}", text), format!("`{fq}` gave [{}] but answers were {want}", r.text()));
                            break;
                        }
                    }
                }
            }
        }

        out.hash = h;
        out.transcript = transcript;
        out.bump("queries", ops.len() as u64);
        out.bump("sim_ticks", vh::ticks() - t_start);
        self.log = log;
        self.pristine = Some(m);
        out
    }

    fn shrink(&self, case: &Value) -> Vec<Value> {
        let mut out = vec![];
        let ops = case["ops"].as_array().cloned().unwrap_or_default();
        let fault = case["fault"].clone();
        // drop the fault
        if !fault.is_null() {
            out.push(json!({"ops": ops, "fault": Value::Null}));
        }
        for smaller in super::shrink_list(&ops) {
            // keep fault index meaningful only if no fault
            if fault.is_null() {
                out.push(json!({"ops": smaller, "fault": Value::Null}));
            }
        }
        // shrink takes
        for (i, op) in ops.iter().enumerate() {
            let take = op["take"].as_u64().unwrap_or(0);
            for t in [0u64, 1, 2] {
                if t < take {
                    let mut o2 = ops.clone();
                    o2[i]["take"] = json!(t);
                    out.push(json!({"ops": o2, "fault": fault}));
                }
            }
        }
        out
    }

    fn describe(&self) -> Value {
        json!({
            "pool_size": POOL.len(),
            "real": ["Machine::run_query", "QueryState::next/drop", "dispatch loop", "whole machine (crate built from /repo)"],
            "stub": ["embedding application (simulated: seeded history, consume prefix, drop)", "interrupt source (injected at tick n inside one next())"],
        })
    }
}

fn faulted_ok(got: &QOut, want: &QOut) -> bool {
    // got must be a prefix of want, optionally followed by the interrupt ball and then the end
    let mut i = 0;
    while i < got.items.len() {
        if i < want.items.len() && got.items[i] == want.items[i] {
            i += 1;
            continue;
        }
        // first difference must be the interrupt ball, as the last item
        return got.items[i].ball() == Some(INTERRUPT_BALL) && i == got.items.len() - 1;
    }
    true
}

fn classify(got: &QOut, want: &QOut) -> &'static str {
    for (i, a) in got.items.iter().enumerate() {
        if want.items.get(i) != Some(a) {
            if a.is_exception() {
                return "unexpected-exception";
            }
            return "wrong-answer";
        }
    }
    if got.items.len() < want.items.len() {
        return "missing-answers";
    }
    "wrong-end-marker"
}

fn split_bindings(b: &str) -> BTreeMap<String, String> {
    // split "X=..;Y=.." at top-level ';' (outside quotes/brackets)
    let mut map = BTreeMap::new();
    let mut depth = 0i32;
    let mut in_q = false;
    let mut esc = false;
    let mut cur = String::new();
    let mut parts = vec![];
    for c in b.chars() {
        if in_q {
            cur.push(c);
            if esc {
                esc = false;
            } else if c == '\\' {
                esc = true;
            } else if c == '"' {
                in_q = false;
            }
            continue;
        }
        match c {
            '"' => {
                in_q = true;
                cur.push(c);
            }
            '(' | '[' => {
                depth += 1;
                cur.push(c);
            }
            ')' | ']' => {
                depth -= 1;
                cur.push(c);
            }
            ';' if depth == 0 => {
                parts.push(std::mem::take(&mut cur));
            }
            _ => cur.push(c),
        }
    }
    if !cur.is_empty() {
        parts.push(cur);
    }
    for p in parts {
        if let Some((k, v)) = p.split_once('=') {
            map.insert(k.to_string(), v.to_string());
        }
    }
    map
}

fn parse_log(r: &QOut) -> Vec<i64> {
    match r.items.first() {
        Some(Ans::Bind(b)) => {
            let inner = b.trim_start_matches("L=[").trim_end_matches(']');
            inner.split(',').filter_map(|x| x.trim().parse().ok()).collect()
        }
        _ => vec![],
    }
}
