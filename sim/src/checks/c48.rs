//! C48 — file-system predicates reflect and change the real file system.
//!
//! The operating system's file system is an external stateful party. A run is a history of
//! library(files) predicates over a small set of (Unicode) names inside a scratch directory,
//! each issued as its own query, with an **external actor** (the harness, through std::fs)
//! creating, deleting and replacing files and directories behind Prolog's back between the
//! operations. Oracle after every operation: an in-memory tree model, refreshed from the real
//! directory before the operation, predicts whether the predicate may succeed and what the
//! directory must look like afterwards; the real directory is then read back through std::fs
//! and compared (names, kinds, file contents). Where the documentation leaves error-versus-
//! failure open only "does not succeed and changes nothing" is asserted.

use super::{panic_key, Check, Outcome, Tier};
use crate::mach::{Ans, Mach};
use crate::prng::{hash_bytes, Prng};
use serde_json::{json, Value};
use std::collections::BTreeMap;
use std::path::{Path, PathBuf};

pub struct C48 {
    m: Option<Mach>,
    dir: String,
}

impl C48 {
    pub fn new() -> Self {
        C48 { m: None, dir: String::new() }
    }
}

const NAMES: &[&str] = &["a", "b.txt", "d1", "d1/x", "d1/sub", "d\u{e9} \u{fc}", "\u{65e5}\u{672c}.txt", "d1/sub/deep"];

#[derive(Clone, Debug, PartialEq)]
enum Node {
    File(Vec<u8>),
    Dir,
}

type Tree = BTreeMap<String, Node>;

fn snapshot(root: &Path) -> Tree {
    let mut t = Tree::new();
    fn walk(root: &Path, dir: &Path, t: &mut Tree) {
        if let Ok(rd) = std::fs::read_dir(dir) {
            for e in rd.flatten() {
                let p = e.path();
                let rel = p.strip_prefix(root).unwrap().to_string_lossy().to_string();
                match std::fs::symlink_metadata(&p) {
                    Ok(md) if md.is_dir() => {
                        t.insert(rel, Node::Dir);
                        walk(root, &p, t);
                    }
                    Ok(_) => {
                        t.insert(rel, Node::File(std::fs::read(&p).unwrap_or_default()));
                    }
                    Err(_) => {}
                }
            }
        }
    }
    walk(root, root, &mut t);
    t
}

fn parent_ok(t: &Tree, name: &str) -> bool {
    match name.rfind('/') {
        None => true,
        Some(i) => matches!(t.get(&name[..i]), Some(Node::Dir)),
    }
}

fn children(t: &Tree, dir: &str) -> Vec<String> {
    let pre = format!("{dir}/");
    t.keys().filter(|k| k.starts_with(&pre) && !k[pre.len()..].contains('/')).map(|k| k[pre.len()..].to_string()).collect()
}

/// what the model allows: Must(succeed) with this post tree / MustNot(succeed) with unchanged tree
enum Pred {
    Must(Tree),
    MustNot,
    /// outcome not fixed by the documentation; the tree must be one of these
    Either(Vec<Tree>),
}

fn predict(t: &Tree, op: &Value) -> Pred {
    let a = op["a"].as_str().unwrap_or("a").to_string();
    if a.is_empty() {
        // the scratch directory itself
        return match op["op"].as_str().unwrap_or("") {
            "directory_exists" | "directory_files" | "path_canonical" => Pred::Must(t.clone()),
            "file_exists" => Pred::MustNot,
            _ => Pred::Either(vec![]),
        };
    }
    let b = op["b"].as_str().unwrap_or("b.txt").to_string();
    match op["op"].as_str().unwrap_or("") {
        "file_exists" => {
            if matches!(t.get(&a), Some(Node::File(_))) {
                Pred::Must(t.clone())
            } else {
                Pred::MustNot
            }
        }
        "directory_exists" => {
            if matches!(t.get(&a), Some(Node::Dir)) {
                Pred::Must(t.clone())
            } else {
                Pred::MustNot
            }
        }
        "file_size" => {
            if matches!(t.get(&a), Some(Node::File(_))) {
                Pred::Must(t.clone())
            } else if matches!(t.get(&a), Some(Node::Dir)) {
                // the size of a directory is whatever the OS says
                Pred::Either(vec![t.clone()])
            } else {
                Pred::MustNot
            }
        }
        "directory_files" => {
            if matches!(t.get(&a), Some(Node::Dir)) {
                Pred::Must(t.clone())
            } else {
                Pred::MustNot
            }
        }
        "make_directory" => {
            if t.contains_key(&a) || !parent_ok(t, &a) {
                Pred::MustNot
            } else {
                let mut t2 = t.clone();
                t2.insert(a, Node::Dir);
                Pred::Must(t2)
            }
        }
        "make_directory_path" => {
            // every prefix must be a directory or missing
            let parts: Vec<&str> = a.split('/').collect();
            let mut t2 = t.clone();
            let mut cur = String::new();
            for p in parts {
                if !cur.is_empty() {
                    cur.push('/');
                }
                cur.push_str(p);
                match t2.get(&cur) {
                    Some(Node::File(_)) => return Pred::MustNot,
                    Some(Node::Dir) => {}
                    None => {
                        t2.insert(cur.clone(), Node::Dir);
                    }
                }
            }
            Pred::Must(t2)
        }
        "delete_file" => match t.get(&a) {
            Some(Node::File(_)) => {
                let mut t2 = t.clone();
                t2.remove(&a);
                Pred::Must(t2)
            }
            _ => Pred::MustNot,
        },
        "delete_directory" => match t.get(&a) {
            Some(Node::Dir) if children(t, &a).is_empty() => {
                let mut t2 = t.clone();
                t2.remove(&a);
                Pred::Must(t2)
            }
            _ => Pred::MustNot,
        },
        "rename_file" => match t.get(&a) {
            Some(Node::File(c)) if parent_ok(t, &b) && !matches!(t.get(&b), Some(Node::Dir)) && a != b => {
                let mut t2 = t.clone();
                t2.remove(&a);
                t2.insert(b, Node::File(c.clone()));
                Pred::Must(t2)
            }
            Some(Node::File(_)) if a == b => Pred::Either(vec![t.clone()]),
            None => Pred::MustNot,
            // renaming directories / onto directories: whatever rename(2) does; not asserted
            _ => Pred::Either(vec![]),
        },
        "file_copy" => match t.get(&a) {
            Some(Node::File(c)) if parent_ok(t, &b) && !matches!(t.get(&b), Some(Node::Dir)) && a != b => {
                let mut t2 = t.clone();
                t2.insert(b, Node::File(c.clone()));
                Pred::Must(t2)
            }
            None => Pred::MustNot,
            _ => Pred::Either(vec![]),
        },
        "path_canonical" => {
            if t.contains_key(&a) {
                Pred::Must(t.clone())
            } else {
                Pred::MustNot
            }
        }
        _ => Pred::Either(vec![t.clone()]),
    }
}

fn q(s: &str) -> String {
    // a double-quoted Prolog string
    format!("\"{}\"", s.replace('\\', "\\\\").replace('"', "\\\""))
}

fn chars_of(term: &str) -> Option<String> {
    // printed forms of a character list: s"abc" (quotes already stripped: sabc), [] or ['a',..]
    let t = term.trim();
    if t == "[]" {
        return Some(String::new());
    }
    t.strip_prefix('s').map(|x| x.to_string())
}

impl Check for C48 {
    fn id(&self) -> &'static str {
        "C48"
    }

    fn runs(&self, tier: Tier) -> u64 {
        match tier {
            Tier::Quick => 2_400,
            Tier::Thorough => 300_000,
        }
    }

    fn batch(&self) -> u64 {
        100
    }

    fn timeout_s(&self) -> f64 {
        40.0
    }

    fn prepare(&mut self, _oracle: Option<&Value>) {
        let mut m = Mach::new();
        let _ = m.all("use_module(library(files)).");
        self.m = Some(m);
    }

    fn gen(&mut self, rng: &mut Prng, _idx: u64, _tier: Tier) -> Value {
        let mut steps = vec![];
        for _ in 0..rng.range(2, 14) {
            // external actor?
            if rng.chance(1, 3) {
                let act = match rng.below(5) {
                    0 | 1 => json!({"actor": "write", "a": *rng.pick(NAMES), "bytes": rng.below(40)}),
                    2 => json!({"actor": "mkdir", "a": *rng.pick(NAMES)}),
                    3 => json!({"actor": "remove", "a": *rng.pick(NAMES)}),
                    _ => json!({"actor": "replace_by_dir", "a": *rng.pick(NAMES)}),
                };
                steps.push(act);
            }
            let op = *rng.pick(&[
                "file_exists", "file_exists", "directory_exists", "file_size", "directory_files", "make_directory", "make_directory", "make_directory_path", "delete_file", "delete_file",
                "delete_directory", "delete_directory", "rename_file", "rename_file", "file_copy", "file_copy", "path_canonical", "path_segments", "ill_typed",
            ]);
            let root_ok = matches!(op, "file_exists" | "directory_exists" | "directory_files" | "path_canonical" | "path_segments");
            let a = if root_ok && rng.chance(1, 8) { "" } else { *rng.pick(NAMES) };
            steps.push(json!({"op": op, "a": a, "b": *rng.pick(NAMES), "k": rng.below(8)}));
        }
        json!({"steps": steps})
    }

    fn exec(&mut self, case: &Value) -> Outcome {
        let mut out = Outcome::default();
        let mut m = match self.m.take() {
            Some(m) if m.alive() => m,
            _ => {
                let mut m = Mach::new();
                let _ = m.all("use_module(library(files)).");
                m
            }
        };
        if self.dir.is_empty() {
            self.dir = super::c19::scratch_dir();
        }
        let root = PathBuf::from(format!("{}/c48", self.dir));
        let _ = std::fs::remove_dir_all(&root);
        if std::fs::create_dir_all(&root).is_err() {
            eprintln!("cannot create scratch directory");
            std::process::exit(2);
        }
        let rootc = std::fs::canonicalize(&root).unwrap_or(root.clone());
        let abs = |n: &str| -> String { if n.is_empty() { rootc.to_string_lossy().to_string() } else { format!("{}/{}", rootc.to_string_lossy(), n) } };
        let mut h = 0xcbf29ce484222325u64;
        let mut log: Vec<String> = vec![];
        let steps = case["steps"].as_array().cloned().unwrap_or_default();

        for st in steps.iter() {
            if let Some(actor) = st["actor"].as_str() {
                // the external actor changes the directory behind Prolog's back
                let a = st["a"].as_str().unwrap_or("a");
                let p = PathBuf::from(abs(a));
                let done = match actor {
                    "write" => {
                        if p.is_dir() || !p.parent().map(|x| x.is_dir()).unwrap_or(false) {
                            false
                        } else {
                            let n = st["bytes"].as_u64().unwrap_or(0) as usize;
                            std::fs::write(&p, (0..n).map(|i| b'A' + (i % 26) as u8).collect::<Vec<u8>>()).is_ok()
                        }
                    }
                    "mkdir" => std::fs::create_dir(&p).is_ok(),
                    "remove" => {
                        if p.is_dir() {
                            std::fs::remove_dir_all(&p).is_ok()
                        } else {
                            std::fs::remove_file(&p).is_ok()
                        }
                    }
                    _ => {
                        if p.is_file() {
                            std::fs::remove_file(&p).is_ok() && std::fs::create_dir(&p).is_ok()
                        } else {
                            false
                        }
                    }
                };
                if done {
                    out.bump("fault.external_actor_changes", 1);
                    out.nontrivial = true;
                }
                log.push(format!("[actor {actor} {a}: {}]", if done { "done" } else { "n/a" }));
                continue;
            }
            let op = st["op"].as_str().unwrap_or("");
            let a = st["a"].as_str().unwrap_or("a");
            let b = st["b"].as_str().unwrap_or("b.txt");
            let pre = snapshot(&rootc);
            let (goal, extra): (String, &str) = match op {
                "file_exists" | "directory_exists" | "make_directory" | "make_directory_path" | "delete_file" | "delete_directory" => (format!("{op}({})", q(&abs(a))), ""),
                "file_size" => (format!("file_size({}, V)", q(&abs(a))), "V"),
                "directory_files" => (format!("directory_files({}, V0), maplist(c48_atom, V0, V)", q(&abs(a))), "V"),
                "rename_file" | "file_copy" => (format!("{op}({}, {})", q(&abs(a)), q(&abs(b))), ""),
                "path_canonical" => (format!("path_canonical({}, V0), atom_chars(V, V0)", q(&abs(a))), "V"),
                "path_segments" => (format!("path_segments({}, S0), maplist(c48_atom, S0, V), path_segments(P0, S0), atom_chars(W, P0)", q(&abs(a))), "V"),
                _ => {
                    let g = ["file_exists(_)", "file_exists(123)", "directory_exists(foo(x))", "delete_file(_)", "make_directory(1.5)", "file_size(_, _)", "file_copy(_, \"x\")", "directory_files(7, _)"][st["k"].as_u64().unwrap_or(0) as usize % 8];
                    (g.to_string(), "")
                }
            };
            let query = format!("catch(( {goal} -> R = yes ; R = no ), error(E, _), R = err(E)).");
            hash_bytes(&mut h, query.replace(&rootc.to_string_lossy().to_string(), "ROOT").as_bytes());
            let r = m.all(&query);
            out.bump("operations", 1);
            if let Some(p) = &r.panic {
                out.violate("panic", panic_key(p), format!("history {}\n `{query}`: {p}", log.join(" ")));
                out.hash = h;
                return out;
            }
            let bnd = match r.items.first() {
                Some(Ans::Bind(b)) => b.replace('"', ""),
                other => {
                    out.violate("wrong-outcome", "no-answer", format!("`{query}` gave {:?}", other.map(|a| a.text())));
                    out.hash = h;
                    self.m = Some(m);
                    return out;
                }
            };
            let parts = super::c40::split_top(&bnd, ';');
            let get = |n: &str| parts.iter().find_map(|p| p.strip_prefix(n).map(|x| x.to_string())).unwrap_or_default();
            let res = get("R=");
            let val = if extra.is_empty() { String::new() } else { get("V=") };
            let post = snapshot(&rootc);
            let short = |s: &str| s.replace(&rootc.to_string_lossy().to_string(), "ROOT");
            log.push(format!("{} => {}{}", short(&goal), short(&res), if val.is_empty() { String::new() } else { format!(" {}", short(&val)) }));
            hash_bytes(&mut h, short(&res).as_bytes());
            let ctx = format!("history: {}", log.join(" | "));
            let succeeded = res == "yes";

            if op == "ill_typed" {
                let ok = res.starts_with("err(instantiation_error") || res.starts_with("err(type_error(");
                if !ok {
                    out.violate("ill-typed", "ill-typed-argument-not-rejected", format!("{ctx}\n expected an instantiation or type error"));
                    break;
                }
                if post != pre {
                    out.violate("state", "ill-typed-call-changed-the-directory", ctx);
                    break;
                }
                continue;
            }
            if op == "path_segments" {
                // both directions: split on the separator and join back
                let want: Vec<String> = abs(a).split('/').map(|s| s.to_string()).collect();
                let got_list = val.trim().strip_prefix('[').and_then(|x| x.strip_suffix(']')).unwrap_or("").to_string();
                let got: Vec<String> = if got_list.is_empty() { vec![] } else { super::c40::split_top(&got_list, ',').into_iter().map(|x| x.trim().to_string()).collect() };
                let w = get("W=");
                if !succeeded || got != want || w != abs(a) {
                    out.violate("path", "path-segments-differ", format!("{ctx}\n segments {:?} (expected {:?}), joined back {w}", got, want));
                    break;
                }
                continue;
            }
            match predict(&pre, st) {
                Pred::Must(want_tree) => {
                    if !succeeded {
                        out.violate("outcome", format!("{op}-must-succeed"), format!("{ctx}\n the directory before the call: {:?}", pre.keys().collect::<Vec<_>>()));
                        break;
                    }
                    if post != want_tree {
                        out.violate("state", format!("{op}-wrong-effect"), format!("{ctx}\n directory afterwards {:?}\n expected {:?}", describe(&post), describe(&want_tree)));
                        break;
                    }
                    // values
                    match op {
                        "file_size" => {
                            if let Some(Node::File(c)) = pre.get(a) {
                                if val != c.len().to_string() {
                                    out.violate("value", "file-size-differs", format!("{ctx}\n the file has {} bytes", c.len()));
                                    break;
                                }
                            }
                        }
                        "directory_files" => {
                            let inner = val.trim().strip_prefix('[').and_then(|x| x.strip_suffix(']')).unwrap_or("").to_string();
                            // a list of one-character atoms prints as a string (s"ab", quotes stripped)
                            let mut got: Vec<String> = if !val.trim().starts_with('[') && val.trim().starts_with('s') {
                                val.trim()[1..].chars().map(|c| c.to_string()).filter(|x| x != ".").collect()
                            } else if inner.is_empty() {
                                vec![]
                            } else {
                                super::c40::split_top(&inner, ',').into_iter().map(|x| x.trim().to_string()).filter(|x| x != "." && x != "..").collect()
                            };
                            got.sort();
                            let mut want = if a.is_empty() { pre.keys().filter(|k| !k.contains('/')).cloned().collect::<Vec<_>>() } else { children(&pre, a) };
                            want.sort();
                            if got != want {
                                out.violate("value", "directory-files-differ", format!("{ctx}\n the directory holds {:?}", want));
                                break;
                            }
                        }
                        "path_canonical" => {
                            let want = std::fs::canonicalize(abs(a)).map(|p| p.to_string_lossy().to_string()).unwrap_or_default();
                            if val != want {
                                out.violate("value", "path-canonical-differs", format!("{ctx}\n std::fs::canonicalize gives {want}"));
                                break;
                            }
                        }
                        _ => {}
                    }
                }
                Pred::MustNot => {
                    if succeeded {
                        out.violate("outcome", format!("{op}-must-not-succeed"), format!("{ctx}\n the directory before the call: {:?}", describe(&pre)));
                        break;
                    }
                    if post != pre {
                        out.violate("state", format!("{op}-changed-the-directory-without-succeeding"), format!("{ctx}\n before {:?}\n after {:?}", describe(&pre), describe(&post)));
                        break;
                    }
                    if res.starts_with("err(") {
                        out.bump("errors_raised", 1);
                    }
                }
                Pred::Either(trees) => {
                    if !trees.is_empty() && !trees.contains(&post) {
                        out.violate("state", format!("{op}-wrong-effect"), format!("{ctx}\n directory afterwards {:?}", describe(&post)));
                        break;
                    }
                    out.bump("operations_with_open_outcome", 1);
                }
            }
        }
        let _ = chars_of("");
        out.transcript = log.join(" | ");
        out.hash = h;
        self.m = Some(m);
        out
    }

    fn shrink(&self, case: &Value) -> Vec<Value> {
        let steps = case["steps"].as_array().cloned().unwrap_or_default();
        super::shrink_list(&steps).into_iter().map(|s| json!({"steps": s})).collect()
    }

    fn describe(&self) -> Value {
        json!({
            "real": ["whole Machine: library(files) (file_exists/1, directory_exists/1, file_size/2, directory_files/2, make_directory/1, make_directory_path/1, delete_file/1, delete_directory/1, rename_file/2, file_copy/2, path_canonical/2, path_segments/2) and their system calls", "the operating system's file system (scratch directory under /verif/scratch)"],
            "stub": ["the external actor: the harness changes the directory through std::fs between operations"],
            "rule": "history of 2..14 operations over 8 names (ASCII, with a space, accented, CJK, nested two levels) and the directory itself, each as its own query, with an external change (write a file, make a directory, remove, replace a file by a directory) before one operation in three; the real directory is read back through std::fs before and after every operation; distinct = hash of the queries and outcomes; non-trivial = the external actor changed something",
            "assumptions": ["where the documentation leaves error versus failure open, only 'does not succeed and changes nothing' is asserted", "renaming or copying directories, or onto directories, is not asserted", "the size reported for a directory is not asserted"],
        })
    }
}

fn describe(t: &Tree) -> Vec<String> {
    t.iter()
        .map(|(k, v)| match v {
            Node::Dir => format!("{k}/"),
            Node::File(c) => format!("{k}({}B)", c.len()),
        })
        .collect()
}
