//! C18 — text decoding does not depend on how input arrives.
//!
//! Layer (a), in-process: the crate's `CharReader` over a simulated byte source (`SimRead`) that
//! serves a byte string according to a seeded partition into reads. Operations (peek, read,
//! put-back, peek_byte, raw reads, consume-after-error) are interleaved; every outcome is
//! compared with a reference decoder built on std's UTF-8 validation, and the whole run with
//! the same operations under the trivial schedule (one chunk).
//! Layer (b), end-to-end: the public `InputStreamConfig::channel()` seam; the simulator is the
//! sender (see c18 channel cases, `kind: "channel"`).

use super::{panic_key, Check, Outcome, Tier};
use crate::mach::guarded;
use crate::prng::{hash_bytes, Prng};
use scryer_prolog::verif_hooks::{CharOutcome, SimCharReader};
use serde_json::{json, Value};
use std::cell::RefCell;
use std::io::Read;
use std::rc::Rc;

/// Byte source with a read schedule. Never returns 0 before the true end.
struct SimRead {
    data: Rc<Vec<u8>>,
    pos: usize,
    chunks: Vec<usize>,
    next_chunk: usize,
    stats: Rc<RefCell<(u64, u64)>>, // (reads, reads that split a multi-byte sequence)
}

impl Read for SimRead {
    fn read(&mut self, buf: &mut [u8]) -> std::io::Result<usize> {
        let rem = self.data.len() - self.pos;
        if rem == 0 || buf.is_empty() {
            return Ok(0);
        }
        let want = if self.next_chunk < self.chunks.len() {
            let c = self.chunks[self.next_chunk].max(1);
            self.next_chunk += 1;
            c
        } else {
            usize::MAX
        };
        let n = want.min(rem).min(buf.len());
        buf[..n].copy_from_slice(&self.data[self.pos..self.pos + n]);
        self.pos += n;
        let mut st = self.stats.borrow_mut();
        st.0 += 1;
        if self.pos < self.data.len() && (self.data[self.pos] & 0xC0) == 0x80 {
            st.1 += 1;
        }
        Ok(n)
    }
}

#[derive(Debug, Clone, PartialEq)]
enum Item {
    Char(char),
    /// invalid sequence; `Some(k)` = std's error length, `None` = truncated at end of input
    Bad(Option<usize>),
    End,
}

/// Reference decoder: what is at byte position `p` of `data`.
fn item_at(data: &[u8], p: usize) -> Item {
    if p >= data.len() {
        return Item::End;
    }
    let end = (p + 4).min(data.len());
    match std::str::from_utf8(&data[p..end]) {
        Ok(s) => Item::Char(s.chars().next().unwrap()),
        Err(e) => {
            if e.valid_up_to() > 0 {
                let s = std::str::from_utf8(&data[p..p + e.valid_up_to()]).unwrap();
                Item::Char(s.chars().next().unwrap())
            } else {
                match e.error_len() {
                    Some(k) => Item::Bad(Some(k)),
                    // fewer than 4 bytes were available and they are a proper prefix of a char
                    None => Item::Bad(None),
                }
            }
        }
    }
}

pub struct C18;

impl C18 {
    pub fn new() -> Self {
        C18
    }
}

const SEGMENTS: &[&[u8]] = &[
    b"a", b"Z", b"0", b" ", b"\n", b".", b"\x00",
    "é".as_bytes(), "ß".as_bytes(), "д".as_bytes(),
    "€".as_bytes(), "あ".as_bytes(), "\u{FFFD}".as_bytes(), "\u{0800}".as_bytes(),
    "😀".as_bytes(), "𝄞".as_bytes(), "\u{10FFFF}".as_bytes(), "\u{10000}".as_bytes(),
    // invalid material
    b"\x80", b"\xBF", b"\xC0\x80", b"\xC1\xBF", b"\xE0\x80\x80", b"\xED\xA0\x80", b"\xF0\x80\x80\x80",
    b"\xF5", b"\xFF", b"\xFE", b"\xF4\x90\x80\x80", b"\xC3", b"\xE2\x82", b"\xF0\x9F\x98", b"\xE2\x28",
    b"\xF0\x28\x8C\xBC", b"\xC3\xC3",
];

fn gen_bytes(rng: &mut Prng, long: bool) -> Vec<u8> {
    let mut v = vec![];
    let valid_only = rng.chance(1, 3);
    let target = if long {
        // around the 8 KiB refill size and its multiples
        let base = *rng.pick(&[8192usize, 8192, 16384, 4096]);
        base - 6 + rng.below(13) as usize
    } else {
        rng.range(0, 40) as usize
    };
    if long {
        // mostly ASCII filler with multi-byte chars around the boundaries
        let filler_len = target.saturating_sub(24);
        let w = rng.range(1, 4) as usize;
        let fill: &[u8] = match w {
            1 => b"x",
            2 => "é".as_bytes(),
            3 => "€".as_bytes(),
            _ => "😀".as_bytes(),
        };
        let shift = rng.below(4) as usize;
        for _ in 0..shift {
            v.push(b'a');
        }
        while v.len() + fill.len() <= filler_len {
            v.extend_from_slice(fill);
        }
    }
    while v.len() < target {
        let seg = loop {
            let s = *rng.pick(SEGMENTS);
            if !valid_only || std::str::from_utf8(s).is_ok() {
                break s;
            }
        };
        v.extend_from_slice(seg);
    }
    v
}

fn gen_chunks(rng: &mut Prng, len: usize) -> Vec<usize> {
    let style = rng.below(6);
    let mut chunks = vec![];
    let mut total = 0;
    while total < len && chunks.len() < 4000 {
        let c = match style {
            0 => 1,
            1 => rng.range(1, 3) as usize,
            2 => rng.range(1, 8) as usize,
            3 => if rng.chance(1, 4) { rng.range(1, 3) as usize } else { rng.range(1, 40) as usize },
            4 => if rng.chance(1, 10) { rng.range(8180, 8200) as usize } else { rng.range(1, 5) as usize },
            _ => *rng.pick(&[1usize, 2, 3, 4, 5, 7, 8191, 8192, 8193, 100_000]),
        };
        chunks.push(c);
        total += c;
    }
    chunks
}

impl Check for C18 {
    fn id(&self) -> &'static str {
        "C18"
    }

    fn runs(&self, tier: Tier) -> u64 {
        match tier {
            Tier::Quick => 400_000,
            Tier::Thorough => 20_000_000,
        }
    }

    fn batch(&self) -> u64 {
        20_000
    }

    fn timeout_s(&self) -> f64 {
        5.0
    }

    fn gen(&mut self, rng: &mut Prng, _idx: u64, _tier: Tier) -> Value {
        let long = rng.chance(1, 40);
        let bytes = gen_bytes(rng, long);
        let chunks = gen_chunks(rng, bytes.len());
        let mut ops: Vec<String> = vec![];
        if long {
            // walk to the interesting region quickly, then fine-grained ops
            if rng.chance(1, 2) {
                ops.push("drain".into());
            } else {
                ops.push(format!("skip:{}", bytes.len().saturating_sub(rng.range(8, 40) as usize)));
            }
        }
        let nops = if long { rng.range(0, 30) } else { rng.range(1, (bytes.len() as u64 * 3).max(4)) };
        let mix = rng.below(4);
        for _ in 0..nops {
            let r = rng.below(100);
            let op = match mix {
                0 => if r < 50 { "read" } else if r < 90 { "peek" } else { "putback" },
                1 => if r < 40 { "read" } else if r < 60 { "peek" } else if r < 85 { "putback" } else { "consume_bad" },
                2 => if r < 35 { "read" } else if r < 50 { "peek" } else if r < 60 { "putback" } else if r < 75 { "peek_byte" } else if r < 90 { "read_bytes" } else { "read_exact" },
                _ => if r < 60 { "read" } else if r < 70 { "peek" } else if r < 80 { "putback" } else if r < 90 { "peek_byte" } else { "read_bytes" },
            };
            match op {
                "read_bytes" | "read_exact" => ops.push(format!("{}:{}", op, rng.range(1, 6))),
                _ => ops.push(op.to_string()),
            }
        }
        ops.push("drain".into());
        json!({"kind": "reader", "bytes": hex(&bytes), "chunks": chunks, "ops": ops})
    }

    fn exec(&mut self, case: &Value) -> Outcome {
        let mut out = Outcome::default();
        let data = unhex(case["bytes"].as_str().unwrap_or(""));
        let chunks: Vec<usize> = case["chunks"].as_array().map(|a| a.iter().map(|x| x.as_u64().unwrap_or(1) as usize).collect()).unwrap_or_default();
        let ops: Vec<String> = case["ops"].as_array().map(|a| a.iter().map(|x| x.as_str().unwrap_or("").to_string()).collect()).unwrap_or_default();

        let stats = Rc::new(RefCell::new((0u64, 0u64)));
        let r1 = run_ops(&data, &chunks, &ops, stats.clone(), true);
        let (reads, splits) = *stats.borrow();
        out.bump("source_reads", reads);
        out.bump("fault.read_split_inside_char", splits);
        out.bump("ops", ops.len() as u64);
        out.nontrivial = splits > 0 || reads > 1;
        let mut h = 0xcbf29ce484222325u64;
        hash_bytes(&mut h, case["bytes"].as_str().unwrap_or("").as_bytes());
        hash_bytes(&mut h, format!("{:?}{:?}", chunks, ops).as_bytes());
        out.hash = h;
        match r1 {
            Err((class, key, detail)) => {
                out.violate(&class, key, detail);
            }
            Ok(t1) => {
                hash_bytes(&mut h, t1.as_bytes());
                out.hash = h;
                // differential: the same operations under the trivial schedule (one chunk)
                let stats2 = Rc::new(RefCell::new((0u64, 0u64)));
                match run_ops(&data, &[], &ops, stats2, false) {
                    Ok(t2) => {
                        if t1 != t2 {
                            out.violate("schedule-dependence", "schedule-dependence", format!("chunked and one-chunk executions differ:\n chunked: {}\n one:     {}", clip(&t1), clip(&t2)));
                        }
                    }
                    Err((class, key, detail)) => {
                        out.violate(&class, format!("one-chunk:{}", key), detail);
                    }
                }
                out.transcript = clip(&t1);
            }
        }
        out
    }

    fn shrink(&self, case: &Value) -> Vec<Value> {
        let mut out = vec![];
        let bytes = unhex(case["bytes"].as_str().unwrap_or(""));
        let chunks = case["chunks"].as_array().cloned().unwrap_or_default();
        let ops = case["ops"].as_array().cloned().unwrap_or_default();
        let mk = |b: &[u8], c: &Vec<Value>, o: &Vec<Value>| json!({"kind": "reader", "bytes": hex(b), "chunks": c, "ops": o});
        // fewer ops
        for o2 in super::shrink_list(&ops) {
            out.push(mk(&bytes, &chunks, &o2));
        }
        // shorter input: drop halves, then single bytes
        if bytes.len() > 1 {
            out.push(mk(&bytes[..bytes.len() / 2], &chunks, &ops));
            out.push(mk(&bytes[bytes.len() / 2..], &chunks, &ops));
            if bytes.len() <= 64 {
                for i in 0..bytes.len() {
                    let mut b = bytes.clone();
                    b.remove(i);
                    out.push(mk(&b, &chunks, &ops));
                }
            }
        }
        // simpler schedule
        for c2 in super::shrink_list(&chunks) {
            out.push(mk(&bytes, &c2, &ops));
        }
        if !chunks.is_empty() {
            out.push(mk(&bytes, &vec![], &ops));
        }
        out
    }

    fn describe(&self) -> Value {
        json!({
            "real": ["scryer_prolog CharReader (peek_char/read_char/put_back_char/consume/peek_byte/Read impl), built from /repo"],
            "stub": ["byte source behind Read (SimRead: seeded partition of the bytes into reads, never 0 before the end)"],
            "rule": "byte strings from valid/invalid UTF-8 segments (<=40 bytes, and a class around 4096/8192/16384 bytes) x seeded read partitions x interleaved reader operations; distinct = hash of (bytes, chunks, ops, outcomes); non-trivial = more than one source read",
        })
    }
}

fn clip(s: &str) -> String {
    if s.len() > 700 {
        format!("{}...", &s[..s.char_indices().take_while(|(i, _)| *i < 700).last().map(|(i, c)| i + c.len_utf8()).unwrap_or(0)])
    } else {
        s.to_string()
    }
}

type Fail = (String, String, String);

/// Execute ops; returns the transcript or the first violation.
fn run_ops(data: &[u8], chunks: &[usize], ops: &[String], stats: Rc<RefCell<(u64, u64)>>, _primary: bool) -> Result<String, Fail> {
    let src = SimRead { data: Rc::new(data.to_vec()), pos: 0, chunks: chunks.to_vec(), next_chunk: 0, stats };
    let mut rd = SimCharReader::new(Box::new(src));
    let mut p = 0usize; // model position
    let mut last: Option<char> = None; // last char read, if nothing happened since
    let mut pending_bad: Option<usize> = None; // length of the last reported bad sequence at p
    let mut t = String::new();
    let fail = |class: &str, key: String, detail: String| -> Fail { (class.to_string(), key, detail) };

    // compare an outcome with the reference at position p; returns reported bad length
    let check_item = |got: &CharOutcome, p: usize, opname: &str| -> Result<Option<usize>, Fail> {
        let want = item_at(data, p);
        match (got, &want) {
            (CharOutcome::Char(c), Item::Char(w)) if c == w => Ok(None),
            (CharOutcome::End, Item::End) => Ok(None),
            (CharOutcome::Bad(b), Item::Bad(k)) => {
                let ok = match k {
                    Some(k) => b.as_slice() == &data[p..p + *k],
                    None => !b.is_empty() && p + b.len() <= data.len() && b.as_slice() == &data[p..p + b.len()],
                };
                if ok {
                    Ok(Some(b.len()))
                } else {
                    Err(fail("wrong-item", format!("wrong-bad-bytes:{}", opname), format!("{opname} at byte {p}: reported bad bytes {:02x?}, reference invalid sequence {:?} of {:02x?}", b, k, &data[p..(p + 4).min(data.len())])))
                }
            }
            _ => Err(fail("wrong-item", format!("wrong-item:{}", opname), format!("{opname} at byte {p}: got {:?}, reference {:?} (input {} bytes)", got, want, data.len()))),
        }
    };

    for (i, op) in ops.iter().enumerate() {
        let (name, arg) = match op.split_once(':') {
            Some((n, a)) => (n, a.parse::<usize>().unwrap_or(1)),
            None => (op.as_str(), 0),
        };
        match name {
            "peek" => {
                let g = guarded(|| rd.peek_char()).map_err(|pi| fail("panic", panic_key(&pi.text()), format!("op {i} peek at byte {p}: {}", pi.text())))?;
                t.push_str(&format!("peek@{p}={:?};", g));
                let bad = check_item(&g, p, "peek")?;
                pending_bad = bad;
                last = None;
            }
            "read" => {
                let g = guarded(|| rd.read_char()).map_err(|pi| fail("panic", panic_key(&pi.text()), format!("op {i} read at byte {p}: {}", pi.text())))?;
                t.push_str(&format!("read@{p}={:?};", g));
                let bad = check_item(&g, p, "read")?;
                pending_bad = bad;
                last = None;
                if let CharOutcome::Char(c) = g {
                    p += c.len_utf8();
                    last = Some(c);
                }
            }
            "putback" => {
                if let Some(c) = last.take() {
                    guarded(|| rd.put_back_char(c)).map_err(|pi| fail("panic", panic_key(&pi.text()), format!("op {i} put_back {:?} at byte {p}: {}", c, pi.text())))?;
                    p -= c.len_utf8();
                    t.push_str(&format!("putback{:?};", c));
                    pending_bad = None;
                }
            }
            "consume_bad" => {
                if let Some(k) = pending_bad.take() {
                    rd.consume(k);
                    p += k;
                    t.push_str(&format!("consume{k};"));
                    last = None;
                }
            }
            "peek_byte" => {
                let g = guarded(|| rd.peek_byte()).map_err(|pi| fail("panic", panic_key(&pi.text()), format!("op {i} peek_byte at byte {p}: {}", pi.text())))?;
                t.push_str(&format!("peek_byte@{p}={:?};", g));
                let want = data.get(p).copied();
                let ok = match (&g, want) {
                    (None, None) => true,
                    (Some(Ok(b)), Some(w)) => *b == w,
                    _ => false,
                };
                if !ok {
                    return Err(fail("wrong-item", "wrong-item:peek_byte".into(), format!("peek_byte at byte {p}: got {:?}, want {:?}", g, want)));
                }
                last = None;
            }
            "read_bytes" => {
                // raw reads until `arg` bytes arrived or the source is at its end (a single
                // `read` may legally return fewer bytes)
                let want_n = arg.max(1);
                let mut got_n = 0;
                let mut calls = 0;
                while got_n < want_n {
                    let mut buf = vec![0u8; want_n - got_n];
                    let g = guarded(|| rd.read_bytes(&mut buf)).map_err(|pi| fail("panic", panic_key(&pi.text()), format!("op {i} read_bytes at byte {p}: {}", pi.text())))?;
                    calls += 1;
                    match g {
                        Ok(k) => {
                            let rem = data.len() - p;
                            if k > buf.len() || k > rem || (k == 0 && rem > 0) || buf[..k] != data[p..p + k] {
                                return Err(fail("wrong-item", "wrong-item:read_bytes".into(), format!("read({}) at byte {p}: returned {k} bytes {:02x?}, input there {:02x?}", buf.len(), &buf[..k.min(buf.len())], &data[p..(p + buf.len()).min(data.len())])));
                            }
                            p += k;
                            got_n += k;
                            if k == 0 {
                                break;
                            }
                        }
                        Err(e) => return Err(fail("wrong-item", "wrong-item:read_bytes-error".into(), format!("read at byte {p}: unexpected error {e}"))),
                    }
                    if calls > 64 {
                        break;
                    }
                }
                t.push_str(&format!("read_bytes={got_n}->{p};"));
                last = None;
                pending_bad = None;
            }
            "read_exact" => {
                let mut buf = vec![0u8; arg.max(1)];
                let g = guarded(|| rd.read_exact_bytes(&mut buf)).map_err(|pi| fail("panic", panic_key(&pi.text()), format!("op {i} read_exact at byte {p}: {}", pi.text())))?;
                t.push_str(&format!("read_exact@{p}={:?};", g));
                let rem = data.len() - p;
                match g {
                    Ok(()) => {
                        if rem < buf.len() || buf[..] != data[p..p + buf.len()] {
                            return Err(fail("wrong-item", "wrong-item:read_exact".into(), format!("read_exact({}) at byte {p}: got {:02x?}, {rem} bytes remained", buf.len(), buf)));
                        }
                        p += buf.len();
                    }
                    Err(_) => {
                        if rem >= buf.len() {
                            return Err(fail("wrong-item", "wrong-item:read_exact-eof".into(), format!("read_exact({}) at byte {p} failed although {rem} bytes remained", buf.len())));
                        }
                        p = data.len();
                    }
                }
                last = None;
                pending_bad = None;
            }
            "skip" => {
                // read chars (consuming bad sequences) until position >= arg
                last = None;
                while p < arg {
                    let g = guarded(|| rd.read_char()).map_err(|pi| fail("panic", panic_key(&pi.text()), format!("op {i} skip/read at byte {p}: {}", pi.text())))?;
                    let bad = check_item(&g, p, "read")?;
                    match g {
                        CharOutcome::Char(c) => p += c.len_utf8(),
                        CharOutcome::Bad(_) => {
                            let k = bad.unwrap_or(1);
                            rd.consume(k);
                            p += k;
                        }
                        _ => break,
                    }
                }
                t.push_str(&format!("skip->{p};"));
                pending_bad = None;
            }
            "drain" => {
                last = None;
                let mut n = 0;
                loop {
                    let g = guarded(|| rd.read_char()).map_err(|pi| fail("panic", panic_key(&pi.text()), format!("op {i} drain/read at byte {p}: {}", pi.text())))?;
                    let bad = check_item(&g, p, "read")?;
                    n += 1;
                    match g {
                        CharOutcome::Char(c) => p += c.len_utf8(),
                        CharOutcome::Bad(_) => {
                            let k = bad.unwrap_or(1);
                            rd.consume(k);
                            p += k;
                        }
                        _ => break,
                    }
                    if n > 200_000 {
                        return Err(fail("hang", "hang:drain".into(), "drain did not reach the end".into()));
                    }
                }
                t.push_str(&format!("drain{n}->{p};"));
                pending_bad = None;
            }
            _ => {}
        }
    }
    Ok(t)
}

pub fn hex(b: &[u8]) -> String {
    let mut s = String::with_capacity(b.len() * 2);
    for x in b {
        s.push_str(&format!("{:02x}", x));
    }
    s
}

pub fn unhex(s: &str) -> Vec<u8> {
    (0..s.len() / 2).filter_map(|i| u8::from_str_radix(&s[2 * i..2 * i + 2], 16).ok()).collect()
}
