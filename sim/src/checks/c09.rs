//! C09 — dynamic predicates follow the logical update view.
//!
//! Actors: cursors (partially consumed calls of dynamic predicates with bound, partially bound
//! and unbound arguments, calls that run through a rule body into a second dynamic predicate,
//! clause/2, re-entrant retract/1, once/1, \+) and writers (assertz, asserta, assertion of
//! rules, retract once, retractall, abolish). One machine resumes choice points LIFO, so an
//! interleaving of cursors and writers is realised as one conjunction `op1, ..., opn, fail`
//! whose cursor answers are logged by side effect; database effects survive backtracking, so
//! later operations re-execute against a changed database — exactly the histories the property
//! quantifies over. `throw` discards every open cursor at once.
//!
//! Oracle: a reference interpreter of the op language over an MVCC list model
//! (clause = (birth, death); a cursor opened at generation g sees birth <= g < death, in list
//! order). Log and final database contents must equal the model's.
//!
//! Fault configuration (separate, `interrupt_at` in the case): an interrupt is injected at the
//! n-th instruction of the history. The relaxed oracle: no crash; the log is a prefix of the
//! model's log; the database is one of the states the model passes through at that point of
//! the log; afterwards fresh calls enumerate exactly that database.

use super::{panic_key, Check, Outcome, Tier};
use crate::mach::{Ans, Mach};
use crate::prng::{hash_bytes, Prng};
use scryer_prolog::verif_hooks as vh;
use serde_json::{json, Value};

pub struct C09 {
    m: Option<Mach>,
}

impl C09 {
    pub fn new() -> Self {
        C09 { m: None }
    }
}

/// ground argument values: atoms, structures with two functors, an integer, a list
const VALS: &[&str] = &["va", "vb", "vc", "f(va)", "f(vb)", "g(va)", "1", "[va]", "va", "vb", "f(va)", "1", "vc", "_"];

#[derive(Clone, Debug)]
struct Clause {
    /// p: [v]; q: [k, v]
    args: Vec<String>,
    /// p-rules only: `p(v) :- q(pattern)`
    body: Option<Vec<Option<String>>>,
    birth: u64,
    death: u64,
}

#[derive(Default)]
struct Model {
    p: Vec<Clause>,
    q: Vec<Clause>,
    clock: u64,
    log: Vec<String>,
    /// the history left what the statement fixes (reason)
    ambiguous: Option<&'static str>,
    /// a `throw` op ran: everything is abandoned
    thrown: bool,
    steps: u64,
    open_clause_cursors: [u32; 2],
    /// open cursors that run through first-argument indexing: (predicate, index key)
    open_indexed: Vec<(String, String)>,
    /// a clause was added to / removed from the index bucket an open indexed cursor walks
    index_hazard: bool,
    /// index buckets (predicate, key) in which a clause has been retracted
    bucket_retracted: Vec<(String, String)>,
    /// asserta into a bucket after a retraction in that bucket (stale index entry defect)
    dup_hazard: bool,
    /// per predicate: a clause with a variable first argument was asserted / an asserta or a
    /// retraction happened (together: threading defects of var-headed clauses)
    var_headed: [bool; 2],
    front_or_retract: [bool; 2],
    /// per predicate: an asserta happened / a call went through first-argument indexing
    asserta_seen: [bool; 2],
    retract_seen: [bool; 2],
    /// calls of the predicate whose choice points are alive right now
    open_calls: [u32; 2],
    /// a clause was asserted while a call of the predicate was open, in a predicate that has
    /// seen both an asserta and a retraction (what is left of the clause-threading defects)
    threading_hazard: bool,
    indexed_call: [bool; 2],
    /// a re-entrant retract/1 that reaches a clause someone else removed meanwhile may still
    /// offer it as an answer (true) or skip it (false): the statement fixes neither, so the
    /// model is run once per combination ("world"); it never removes anything else
    choices: Vec<bool>,
    meets: usize,
    /// (log length, database text) after every writer step, for the fault configuration
    states: Vec<(usize, String)>,
}

fn pred_ix(pred: &str) -> usize {
    if pred == "p" {
        0
    } else {
        1
    }
}

impl Model {
    fn pred(&mut self, pred: &str) -> &mut Vec<Clause> {
        if pred == "p" {
            &mut self.p
        } else {
            &mut self.q
        }
    }

    fn visible(&self, pred: &str, now: u64) -> Vec<(usize, Clause)> {
        let v = if pred == "p" { &self.p } else { &self.q };
        v.iter().enumerate().filter(|(_, c)| c.birth <= now && c.death > now).map(|(i, c)| (i, c.clone())).collect()
    }

    fn db_text(&self) -> String {
        let now = self.clock;
        let f = |v: &Vec<Clause>| -> String {
            v.iter()
                .filter(|c| c.birth <= now && c.death > now)
                .map(|c| match &c.body {
                    None => c.args.join("-"),
                    Some(b) => format!("{}:-{}", c.args.join("-"), pat_text(b)),
                })
                .collect::<Vec<_>>()
                .join(",")
        };
        format!("p[{}] q[{}]", f(&self.p), f(&self.q))
    }

    fn note_state(&mut self) {
        let t = self.db_text();
        self.states.push((self.log.len(), t));
    }

    fn stop(&self) -> bool {
        self.ambiguous.is_some() || self.thrown
    }
}

/// first-argument index key of a ground value or of a call pattern (None: unbound, not indexed)
fn index_key(a: Option<&str>) -> Option<String> {
    let a = a?;
    if a.starts_with("f(") {
        Some("f/1".into())
    } else if a.starts_with("g(") {
        Some("g/1".into())
    } else if a.starts_with('[') {
        Some("list".into())
    } else {
        Some(a.to_string())
    }
}

impl Model {
    /// a writer touches a clause whose first argument is `first`
    fn writer_touches(&mut self, pred: &str, first: &str) {
        let k = index_key(Some(first)).unwrap();
        if self.open_indexed.iter().any(|(p, key)| p == pred && *key == k) {
            self.index_hazard = true;
        }
    }

    fn note_retraction(&mut self, pred: &str, first: &str) {
        self.front_or_retract[pred_ix(pred)] = true;
        self.retract_seen[pred_ix(pred)] = true;
        let k = index_key(Some(first)).unwrap();
        if !self.bucket_retracted.iter().any(|(p, key)| p == pred && *key == k) {
            self.bucket_retracted.push((pred.to_string(), k));
        }
    }

    fn note_asserta(&mut self, pred: &str, first: &str) {
        let k = index_key(Some(first)).unwrap();
        if self.bucket_retracted.iter().any(|(p, key)| p == pred && *key == k) {
            self.dup_hazard = true;
        }
    }
}

fn pat_text(p: &[Option<String>]) -> String {
    p.iter().map(|x| x.clone().unwrap_or_else(|| "_".into())).collect::<Vec<_>>().join("-")
}

fn matches(pat: &[Option<String>], args: &[String]) -> bool {
    pat.iter().zip(args.iter()).all(|(p, a)| {
        // a clause argument `_` (variable in the clause head) unifies with anything
        a == "_"
            || match p.as_deref() {
                None => true,
                Some("f(_)") => a.starts_with("f("),
                Some(p) => p == a,
            }
    })
}

/// the call's arguments after unification with the clause head
fn inst(pat: &[Option<String>], args: &[String]) -> Vec<String> {
    pat.iter()
        .zip(args.iter())
        .map(|(p, a)| {
            if a == "_" {
                p.clone().unwrap_or_else(|| "_".into())
            } else {
                a.clone()
            }
        })
        .collect()
}

fn pat_of(v: &Value) -> Vec<Option<String>> {
    v.as_array().map(|a| a.iter().map(|x| x.as_str().map(|s| s.to_string())).collect()).unwrap_or_default()
}

/// Solutions of a call of `pred` with `pat` started now: the snapshot of matching clauses; a
/// p-rule runs its body (a call of q started when the body is entered). `k` is invoked once per
/// solution with the instantiated arguments, in order.
fn solve(m: &mut Model, pred: &str, pat: &[Option<String>], k: &mut dyn FnMut(&mut Model, &[String])) {
    let now = m.clock;
    let snap: Vec<Clause> = m.visible(pred, now).into_iter().map(|(_, c)| c).filter(|c| matches(pat, &c.args)).collect();
    let outer_key = index_key(pat.first().and_then(|x| x.as_deref()));
    if let Some(key) = &outer_key {
        m.open_indexed.push((pred.to_string(), key.clone()));
        m.indexed_call[pred_ix(pred)] = true;
    }
    m.open_calls[pred_ix(pred)] += 1;
    'outer: for c in snap {
        match &c.body {
            None => k(m, &inst(pat, &c.args)),
            Some(bpat) => {
                let bpat: Vec<Option<String>> = bpat.iter().map(|x| if x.as_deref() == Some("_") { None } else { x.clone() }).collect();
                let bpat = &bpat;
                let now2 = m.clock;
                let inner: Vec<Clause> = m.visible("q", now2).into_iter().map(|(_, c)| c).filter(|c2| matches(bpat, &c2.args)).collect();
                let inner_key = index_key(bpat.first().and_then(|x| x.as_deref()));
                if let Some(key) = &inner_key {
                    m.open_indexed.push(("q".to_string(), key.clone()));
                    m.indexed_call[1] = true;
                }
                m.open_calls[1] += 1;
                for _c2 in inner {
                    k(m, &inst(pat, &c.args));
                    if m.stop() {
                        break;
                    }
                }
                if inner_key.is_some() {
                    m.open_indexed.pop();
                }
                m.open_calls[1] -= 1;
            }
        }
        if m.stop() {
            break 'outer;
        }
    }
    if outer_key.is_some() {
        m.open_indexed.pop();
    }
    m.open_calls[pred_ix(pred)] -= 1;
}

/// Reference interpreter: run ops[k..] as a conjunction followed by `fail`.
fn run(m: &mut Model, ops: &[Value], k: usize) {
    m.steps += 1;
    if m.stop() {
        return;
    }
    if m.steps > 100_000 || m.log.len() > 400 {
        m.ambiguous = Some("too-long");
        return;
    }
    if k == ops.len() {
        return; // fail
    }
    let op = &ops[k];
    let pred = op["pred"].as_str().unwrap_or("p").to_string();
    let pi = pred_ix(&pred);
    let mut pat = pat_of(&op["args"]);
    if !op["op"].as_str().unwrap_or("").starts_with("assert") {
        // `_` in a call pattern is just an unbound argument
        for x in pat.iter_mut() {
            if x.as_deref() == Some("_") {
                *x = None;
            }
        }
    }
    let id = k;
    match op["op"].as_str().unwrap_or("") {
        "assertz" | "asserta" | "assertz_rule" | "asserta_rule" => {
            m.clock += 1;
            let body = if op["op"].as_str().unwrap().ends_with("_rule") { Some(pat_of(&op["body"])) } else { None };
            let c = Clause { args: pat.iter().map(|x| x.clone().unwrap()).collect(), body, birth: m.clock, death: u64::MAX };
            let first = c.args[0].clone();
            m.writer_touches(&pred, &first);
            if m.open_clause_cursors[pi] > 0 {
                m.ambiguous = Some("clause-cursor");
            }
            let front = op["op"].as_str().unwrap().starts_with("asserta");
            // (asserta or assertz: both leave stale or duplicate index entries after a retraction)
            m.note_asserta(&pred, &first);
            if front {
                m.front_or_retract[pi] = true;
                m.asserta_seen[pi] = true;
            }
            if first == "_" {
                m.var_headed[pi] = true;
            }
            if m.open_calls[pi] > 0 && m.asserta_seen[pi] && m.retract_seen[pi] {
                m.threading_hazard = true;
            }
            let v = m.pred(&pred);
            if front {
                v.insert(0, c);
            } else {
                v.push(c);
            }
            m.note_state();
            run(m, ops, k + 1);
        }
        "retract_once" => {
            // retract(p(..)) only matches facts (body `true`)
            let now = m.clock;
            let idx = m.visible(&pred, now).into_iter().find(|(_, c)| c.body.is_none() && matches(&pat, &c.args)).map(|(i, _)| i);
            if let Some(i) = idx {
                m.clock += 1;
                let t = m.clock;
                m.pred(&pred)[i].death = t;
                let first = m.pred(&pred)[i].args[0].clone();
                m.writer_touches(&pred, &first);
                m.note_retraction(&pred, &first);
                if m.open_clause_cursors[pi] > 0 {
                    m.ambiguous = Some("clause-cursor");
                }
                m.note_state();
            }
            run(m, ops, k + 1);
        }
        "retractall" | "abolish" => {
            let now = m.clock;
            let all = op["op"] == "abolish";
            let victims: Vec<usize> = m.visible(&pred, now).into_iter().filter(|(_, c)| all || matches(&pat, &c.args)).map(|(i, _)| i).collect();
            if !victims.is_empty() {
                m.clock += 1;
                let t = m.clock;
                for i in victims {
                    m.pred(&pred)[i].death = t;
                    let first = m.pred(&pred)[i].args[0].clone();
                    m.writer_touches(&pred, &first);
                    m.note_retraction(&pred, &first);
                    // retractall/1 and abolish/1 are loops over single retractions: an
                    // interrupt may land between two of them
                    m.note_state();
                }
                if m.open_clause_cursors[pi] > 0 {
                    m.ambiguous = Some("clause-cursor");
                }
                m.note_state();
            }
            run(m, ops, k + 1);
        }
        "call" => {
            let mut cont = |m: &mut Model, args: &[String]| {
                m.log.push(format!("c({},{})", id, args.join(",")));
                run(m, ops, k + 1);
            };
            solve(m, &pred, &pat, &mut cont);
        }
        "clause" => {
            // clause(Head, true): facts only; the statement gives a resumed clause/2 cursor no
            // snapshot guarantee, so a history that modifies the predicate under it is left
            m.open_clause_cursors[pi] += 1;
            let now = m.clock;
            let snap: Vec<Clause> = m.visible(&pred, now).into_iter().map(|(_, c)| c).filter(|c| c.body.is_none() && matches(&pat, &c.args)).collect();
            for c in snap {
                m.log.push(format!("k({},{})", id, inst(&pat, &c.args).join(",")));
                run(m, ops, k + 1);
                if m.stop() {
                    break;
                }
            }
            m.open_clause_cursors[pi] -= 1;
        }
        "retract" => {
            let now = m.clock;
            let snap: Vec<Clause> = m.visible(&pred, now).into_iter().map(|(_, c)| c).filter(|c| c.body.is_none() && matches(&pat, &c.args)).collect();
            for c in snap {
                let pos = m.pred(&pred).iter().position(|x| x.birth == c.birth);
                let alive = pos.map(|p| m.pred(&pred)[p].death == u64::MAX).unwrap_or(false);
                if !alive {
                    // a clause of this cursor's snapshot was removed by someone else meanwhile:
                    // the statement does not say whether the cursor still offers it; it
                    // certainly removes nothing
                    let offer = m.choices.get(m.meets).copied().unwrap_or(true);
                    m.meets += 1;
                    if m.meets > 3 {
                        m.ambiguous = Some("retract-meets-removed-clause");
                        return;
                    }
                    if offer {
                        m.log.push(format!("r({},{})", id, inst(&pat, &c.args).join(",")));
                        run(m, ops, k + 1);
                        if m.stop() {
                            return;
                        }
                    }
                    continue;
                }
                m.clock += 1;
                let t = m.clock;
                let p = pos.unwrap();
                m.pred(&pred)[p].death = t;
                let first = m.pred(&pred)[p].args[0].clone();
                m.writer_touches(&pred, &first);
                m.note_retraction(&pred, &first);
                if m.open_clause_cursors[pi] > 0 {
                    m.ambiguous = Some("clause-cursor");
                    return;
                }
                m.note_state();
                m.log.push(format!("r({},{})", id, inst(&pat, &c.args).join(",")));
                run(m, ops, k + 1);
                if m.stop() {
                    return;
                }
            }
        }
        "once" => {
            let mut first: Option<Vec<String>> = None;
            let mut cont = |_m: &mut Model, args: &[String]| {
                if first.is_none() {
                    first = Some(args.to_vec());
                }
            };
            solve(m, &pred, &pat, &mut cont);
            if let Some(args) = first {
                m.log.push(format!("o({},{})", id, args.join(",")));
                run(m, ops, k + 1);
            }
        }
        "not" => {
            let mut any = false;
            let mut cont = |_m: &mut Model, _args: &[String]| {
                any = true;
            };
            solve(m, &pred, &pat, &mut cont);
            if !any {
                m.log.push(format!("n({})", id));
                run(m, ops, k + 1);
            }
        }
        "throw" => {
            m.thrown = true;
        }
        _ => run(m, ops, k + 1),
    }
}

fn head_text(pred: &str, pat: &[Option<String>], id: usize) -> (String, String) {
    // (head with fresh variables for unbound positions, comma list of the argument terms)
    let mut args = vec![];
    for (j, a) in pat.iter().enumerate() {
        match a.as_deref() {
            Some("f(_)") => args.push(format!("f(V{}_{})", id, j)),
            Some(v) => args.push(v.to_string()),
            None => args.push(format!("V{}_{}", id, j)),
        }
    }
    (format!("{}({})", pred, args.join(",")), args.join(","))
}

fn goal_text(op: &Value, id: usize, guard: bool) -> String {
    let pred = op["pred"].as_str().unwrap_or("p");
    let mut pat = pat_of(&op["args"]);
    if !op["op"].as_str().unwrap_or("").starts_with("assert") {
        for x in pat.iter_mut() {
            if x.as_deref() == Some("_") {
                *x = None;
            }
        }
    }
    let (head, args) = head_text(pred, &pat, id);
    // after abolish/1 a call may fail or raise existence_error: both "see no clauses"
    let call = if guard { format!("c09_call({head})") } else { head.clone() };
    match op["op"].as_str().unwrap_or("") {
        "assertz" => format!("assertz({head})"),
        "asserta" => format!("asserta({head})"),
        "assertz_rule" | "asserta_rule" => {
            let (bhead, _) = head_text("q", &pat_of(&op["body"]), 100 + id);
            let b = if guard { format!("c09_call({bhead})") } else { bhead };
            format!("{}(({head} :- {b}))", if op["op"] == "assertz_rule" { "assertz" } else { "asserta" })
        }
        "retract_once" => format!("( retract({head}) -> true ; true )"),
        "retractall" => format!("retractall({head})"),
        "abolish" => format!("abolish({}/{})", pred, pat.len()),
        "call" => format!("{call}, c09_log(c({id},{args}))"),
        "clause" => format!("clause({head}, true), c09_log(k({id},{args}))"),
        "retract" => format!("retract({head}), c09_log(r({id},{args}))"),
        "once" => format!("once({call}), c09_log(o({id},{args}))"),
        "not" => format!("\\+ {call}, c09_log(n({id}))"),
        "throw" => "throw(c09_ball)".to_string(),
        _ => "true".into(),
    }
}

fn gen_pat(rng: &mut Prng, pred: &str, bound_all: bool) -> Vec<Value> {
    let n = if pred == "p" { 1 } else { 2 };
    (0..n)
        .map(|_| {
            if bound_all {
                json!(*rng.pick(VALS))
            } else {
                match rng.below(10) {
                    0..=2 => json!(*rng.pick(VALS)),
                    3 => json!("f(_)"),
                    _ => Value::Null,
                }
            }
        })
        .collect()
}

impl Check for C09 {
    fn id(&self) -> &'static str {
        "C09"
    }

    fn runs(&self, tier: Tier) -> u64 {
        match tier {
            Tier::Quick => 12_000,
            Tier::Thorough => 3_000_000,
        }
    }

    fn batch(&self) -> u64 {
        500
    }

    fn timeout_s(&self) -> f64 {
        // a history that burns its whole instruction budget while the code area keeps growing
        // (the recorded indexed-cursor defect) takes about 30 s
        150.0
    }

    fn prepare(&mut self, _oracle: Option<&Value>) {
        self.m = Some(Mach::new());
    }

    fn gen(&mut self, rng: &mut Prng, _idx: u64, _tier: Tier) -> Value {
        let mut init = vec![];
        for _ in 0..rng.range(0, 6) {
            let pred = if rng.chance(2, 3) { "p" } else { "q" };
            if pred == "p" && rng.chance(1, 8) {
                init.push(json!({"op": "assertz_rule", "pred": "p", "args": gen_pat(rng, "p", true), "body": gen_pat(rng, "q", false)}));
            } else {
                init.push(json!({"op": "assertz", "pred": pred, "args": gen_pat(rng, pred, true)}));
            }
        }
        let n = rng.range(1, 8);
        let mut ops = vec![];
        // swarm: per-run feature subset
        let with_clause = rng.chance(1, 5);
        let with_rules = rng.chance(1, 3);
        let with_abolish = rng.chance(1, 6);
        let with_throw = rng.chance(1, 10);
        for _ in 0..n {
            let pred = if rng.chance(2, 3) { "p" } else { "q" };
            let r = rng.below(100);
            let (op, bound) = if r < 26 {
                ("call", false)
            } else if r < 34 {
                (if with_clause { "clause" } else { "call" }, false)
            } else if r < 44 {
                ("retract", false)
            } else if r < 50 {
                ("once", false)
            } else if r < 55 {
                ("not", false)
            } else if r < 68 {
                ("assertz", true)
            } else if r < 77 {
                ("asserta", true)
            } else if r < 82 {
                (
                    if with_rules {
                        if rng.chance(1, 2) {
                            "assertz_rule"
                        } else {
                            "asserta_rule"
                        }
                    } else {
                        "assertz"
                    },
                    true,
                )
            } else if r < 91 {
                ("retract_once", false)
            } else if r < 96 {
                ("retractall", false)
            } else if r < 98 {
                (if with_abolish { "abolish" } else { "retractall" }, false)
            } else {
                (if with_throw { "throw" } else { "call" }, false)
            };
            let mut o = json!({"op": op, "pred": pred, "args": gen_pat(rng, pred, bound)});
            if op.ends_with("_rule") {
                o["pred"] = json!("p");
                o["args"] = json!(gen_pat(rng, "p", true));
                o["body"] = json!(gen_pat(rng, "q", false));
            }
            ops.push(o);
        }
        // fault configuration: an interrupt somewhere in the history (1 run in 4)
        let interrupt_at = if rng.chance(1, 4) { rng.range(1, 40_000) } else { 0 };
        json!({"init": init, "ops": ops, "interrupt_at": interrupt_at})
    }

    fn exec(&mut self, case: &Value) -> Outcome {
        let mut hazard = 0u8;
        let mut out = self.exec_inner(case, &mut hazard);
        if hazard != 0 {
            // 1: the history adds or removes a clause in the index bucket an open first-argument-
            // indexed cursor is walking; 2: it does asserta into an index bucket in which a clause
            // was retracted before. Violations in such histories are keyed apart (known findings).
            // 3: a clause with a variable first argument in a predicate that also sees an
            // asserta or a retraction (clause threading defects)
            let pre = match hazard {
                1 => "indexed-cursor-modified",
                2 => "assert-into-bucket-after-retract",
                // 4: asserta/1 on a predicate that is also called with a bound first argument
                4 => "asserta-and-indexed-call",
                _ => "assert-under-open-call-after-asserta-and-retract",
            };
            for v in out.violations.iter_mut() {
                if !v.key.starts_with("with-open-clause-cursor:") {
                    v.key = format!("{pre}:{}", v.key.split(':').next().unwrap_or(""));
                }
            }
            out.bump(&format!("histories_with_hazard.{pre}"), 1);
        }
        out
    }

    fn shrink(&self, case: &Value) -> Vec<Value> {
        let mut out = vec![];
        let ops = case["ops"].as_array().cloned().unwrap_or_default();
        let init = case["init"].as_array().cloned().unwrap_or_default();
        let ia = case["interrupt_at"].clone();
        for o2 in super::shrink_list(&ops) {
            out.push(json!({"init": init, "ops": o2, "interrupt_at": ia}));
        }
        for i2 in super::shrink_list(&init) {
            out.push(json!({"init": i2, "ops": ops, "interrupt_at": ia}));
        }
        if !init.is_empty() {
            out.push(json!({"init": [], "ops": ops, "interrupt_at": ia}));
        }
        if ia.as_u64().unwrap_or(0) > 0 {
            out.push(json!({"init": init, "ops": ops, "interrupt_at": 0}));
        }
        // simpler arguments
        for (i, o) in ops.iter().enumerate() {
            if let Some(args) = o["args"].as_array() {
                for (j, a) in args.iter().enumerate() {
                    if a.as_str().map(|s| s != "va" && s != "f(_)").unwrap_or(false) {
                        let mut o2 = ops.clone();
                        o2[i]["args"][j] = json!("va");
                        out.push(json!({"init": init, "ops": o2, "interrupt_at": ia}));
                    }
                }
            }
        }
        out
    }

    fn describe(&self) -> Value {
        json!({
            "real": ["whole Machine: dynamic predicate calls (unindexed, constant-, structure- and list-indexed), rule bodies calling a second dynamic predicate, clause/2, retract/1, assertz/asserta/retractall/abolish, generation stamps and clock (compile.rs, dispatch.rs)", "interrupt delivery (check_for_interrupt, throw, unwind) in the fault configuration"],
            "stub": ["scheduler of cursors and writers (an interleaving is realised as one conjunction whose choice points are resumed LIFO by backtracking)", "interrupt source (instruction clock)"],
            "rule": "<=6 initial clauses over p/1 and q/2 (8 ground values: atoms, f/1 and g/1 structures, an integer, a list; p-rules whose body calls q) x <=8 operations (calls with bound / partially bound f(_) / unbound arguments, clause/2, re-entrant retract/1, once/1, \\+, assertz, asserta, rule assertion, retract-once, retractall, abolish, throw) run as `op1,...,opn,fail`; per-run feature subset (swarm); 1 run in 4 injects an interrupt at a seeded instruction; distinct = hash of setup, goal, fault position and answer; non-trivial = the interrupt fired, or at least one writer ran and more than one cursor answer was logged",
            "assumptions": [
                "histories in which a re-entrant retract/1 meets a clause of its snapshot that someone else removed, or in which a clause/2 cursor is open while its predicate is modified, are outside what the statement fixes: only 'no crash' is asserted for them (and, for a modified clause/2 cursor, not even termination: a cursor that sees the database as modified may follow the clauses the history keeps adding)",
                "after abolish/1 a call may fail or raise existence_error (both 'see no clauses'): calls are wrapped accordingly in histories that contain abolish",
                "after an injected interrupt only: log is a prefix of the model log and the database is a state the model passes through at that log length"
            ],
        })
    }
}

impl C09 {
    fn exec_inner(&mut self, case: &Value, hazard: &mut u8) -> Outcome {
        let mut out = Outcome::default();
        let mut m = match self.m.take() {
            Some(m) if m.alive() => m,
            _ => Mach::new(),
        };
        let init = case["init"].as_array().cloned().unwrap_or_default();
        let ops = case["ops"].as_array().cloned().unwrap_or_default();
        let interrupt_at = case["interrupt_at"].as_u64().unwrap_or(0);
        let guard = init.iter().chain(ops.iter()).any(|o| o["op"] == "abolish");

        // model (first world: a re-entrant retract/1 still offers clauses removed meanwhile)
        let world = |choices: Vec<bool>| -> Model {
            let mut model = Model::default();
            run(&mut model, &init, 0); // init ops are writers only: runs them once, then "fails"
            model.log.clear();
            model.states.clear();
            model.steps = 0;
            model.meets = 0;
            model.choices = choices;
            model.note_state();
            run(&mut model, &ops, 0);
            model
        };
        let model = world(vec![]);
        let mut out_stats_dup = false;
        let mut out_stats_asserta = false;
        let var_hazard = (0..2).any(|i| model.var_headed[i] && model.front_or_retract[i]);
        let asserta_hazard = (0..2).any(|i| model.asserta_seen[i] && model.indexed_call[i]);
        // (hazards 2 "assert into a bucket after a retraction" and 4 "asserta + indexed call" were
        // keyed apart until the two defects behind them were repaired in /repo; they are
        // counted only now and such histories are checked strictly)
        if model.dup_hazard {
            out_stats_dup = true;
        }
        if asserta_hazard {
            out_stats_asserta = true;
        }
        // (hazard 1, "a writer touches the bucket an open indexed cursor walks", was keyed apart
        // until cursors of indexed calls were made position-independent in /repo)
        if model.index_hazard {
            out.bump("histories_modifying_the_bucket_of_an_open_indexed_cursor", 1);
        }
        // (hazard 3, "a variable-first-argument clause in a predicate that also sees an asserta or
        // a retraction", was keyed apart until the clause-threading defects behind it were
        // repaired in /repo)
        if var_hazard {
            out.bump("histories_with_var_headed_clause_and_asserta_or_retract", 1);
        }
        // what is left of it: a variable-first-argument clause in a predicate that sees BOTH a
        // retraction and an asserta (a call with a bound first argument then loses a later
        // variable-headed clause)
        let narrow = (0..2).any(|i| model.var_headed[i] && model.retract_seen[i] && model.asserta_seen[i]);
        *hazard = if narrow || model.threading_hazard { 3 } else { 0 };
        let want_db = model.db_text();
        if out_stats_dup {
            out.bump("histories_asserting_into_a_bucket_after_a_retraction", 1);
        }
        if out_stats_asserta {
            out.bump("histories_with_asserta_and_indexed_call", 1);
        }

        // implementation
        let setup: Vec<String> = init.iter().enumerate().map(|(i, o)| goal_text(o, i, guard)).collect();
        let q0 = format!(
            "abolish(p/1), abolish(q/2), assertz(p(c09_tmp)), assertz(q(c09_tmp,c09_tmp)), retractall(p(_)), retractall(q(_,_)), retractall(c09_l(_)){}{}.",
            if setup.is_empty() { "" } else { ", " },
            setup.join(", ")
        );
        let r0 = m.all(&q0);
        if let Some(p) = &r0.panic {
            out.violate("panic", panic_key(p), format!("setup `{q0}`: {p}"));
            return out;
        }
        let goals: Vec<String> = ops.iter().enumerate().map(|(i, o)| goal_text(o, i, guard)).collect();
        let q = format!("catch(( {}, fail ; true ), E, true).", goals.join(", "));
        let t0 = vh::ticks();
        // a history the model has no bound for (a modified clause/2 cursor may follow the clauses
        // the history keeps adding, each addition rewriting a growing index) gets a small budget:
        // only "no crash" is asserted for it anyway
        vh::set_tick_budget(t0 + if model.ambiguous.is_some() { 400_000 } else { 5_000_000 });
        vh::set_p_trace(true);
        let r = m.run_with(&q, usize::MAX, |k| {
            if k == 0 && interrupt_at > 0 {
                vh::interrupt_at(vh::ticks() + interrupt_at);
            }
        });
        let fired = interrupt_at > 0 && vh::interrupt_fired_at() != 0;
        vh::interrupt_at(0);
        vh::clear_global_interrupt();
        vh::set_tick_budget(u64::MAX);
        out.bump("sim_ticks", vh::ticks() - t0);
        let mut h = 0xcbf29ce484222325u64;
        hash_bytes(&mut h, q0.as_bytes());
        hash_bytes(&mut h, q.as_bytes());
        hash_bytes(&mut h, &interrupt_at.to_le_bytes());
        hash_bytes(&mut h, r.text().as_bytes());
        out.hash = h;
        out.transcript = format!("{q0}\n{q}\n => {}", r.text());
        let writers = ops.iter().any(|o| matches!(o["op"].as_str(), Some("assertz" | "asserta" | "assertz_rule" | "asserta_rule" | "retract" | "retract_once" | "retractall" | "abolish")));
        out.nontrivial = fired || (model.log.len() > 1 && writers);
        out.bump("model_log_entries", model.log.len() as u64);
        if fired {
            out.bump("fault.interrupt_fired", 1);
        }
        if let Some(why) = model.ambiguous {
            out.bump(&format!("histories_outside_the_statement.{why}"), 1);
        }
        let ctx = format!("setup `{q0}`\n goal `{q}`{}", if fired { format!("\n interrupt injected at instruction {interrupt_at}") } else { String::new() });

        if let Some(p) = &r.panic {
            let pre = if model.ambiguous == Some("clause-cursor") { "with-open-clause-cursor:" } else { "" };
            if p.contains("TickBudgetExceeded") {
                if model.ambiguous.is_some() {
                    // the model gave up on this history (too long for its bounds, or outside the
                    // statement), so it has no bound on its length; in particular a clause/2 cursor that "sees the database as modified" may legitimately keep
                    // finding the clauses the history keeps adding
                    out.bump("unbounded_histories_stopped_by_budget", 1);
                } else {
                    let (site, d) = m.hang_site().unwrap_or_default();
                    out.violate("hang", format!("hang-in:{site}"), format!("{ctx}\n does not terminate (5M instructions); last instructions:{d}"));
                }
            } else {
                out.violate("panic", format!("{pre}{}", panic_key(p)), format!("{ctx}: {p}"));
            }
            vh::set_p_trace(false);
            return out;
        }
        vh::set_p_trace(false);

        // outcome of the history goal
        let e_text = match r.items.first() {
            Some(Ans::True) => None,
            // the interrupt struck before the goal's catch/3 was installed or after it was left
            Some(Ans::Err(e)) | Some(Ans::Exc(e)) if fired && e.contains("$interrupt_thrown") => Some(e.replace('"', "")),
            Some(Ans::Bind(b)) => super::c40::split_top(b, ';').iter().find_map(|p| p.strip_prefix("E=").map(|x| x.replace('"', ""))),
            _ => {
                out.violate("wrong-outcome", "no-answer", format!("{ctx}\n gave [{}]", r.text()));
                self.m = Some(m);
                return out;
            }
        };
        let e_is_var = e_text.as_deref().map(|e| e.starts_with('_')).unwrap_or(true);

        // observe log and database with fresh calls
        let q2 = "findall(T, c09_l(T), Log), findall(X-B, clause(p(X), B), P), findall(K-X-B, clause(q(K, X), B), Q).";
        let r2 = m.all(q2);
        if let Some(p) = &r2.panic {
            out.violate("panic", format!("after-history:{}", panic_key(p)), format!("{ctx}\n then `{q2}`: {p}"));
            return out;
        }
        let b2 = match r2.items.first() {
            Some(Ans::Bind(b)) => b.clone(),
            _ => {
                out.violate("wrong-outcome", "observation-failed", format!("{ctx}\n then `{q2}` gave [{}]", r2.text()));
                self.m = Some(m);
                return out;
            }
        };
        let parts = super::c40::split_top(&b2, ';');
        let get = |name: &str| parts.iter().find_map(|p| p.strip_prefix(&format!("{}=", name)).map(|x| canon_anon(&x.replace('"', "")))).unwrap_or_default();
        let got_log_items = list_items(&get("Log"));
        let got_db = format!("p{} q{}", norm_db(&get("P"), 1), norm_db(&get("Q"), 2));

        // a second observation through ordinary calls must agree with clause/2 ("later calls see
        // the database as modified")
        let q3 = if guard { "findall(X, c09_call(p(X)), P), findall(K-X, c09_call(q(K, X)), Q)." } else { "findall(X, p(X), P), findall(K-X, q(K, X), Q)." };
        let r3 = m.all(q3);
        if let Some(p) = &r3.panic {
            out.violate("panic", format!("after-history:{}", panic_key(p)), format!("{ctx}\n then `{q3}`: {p}"));
            return out;
        }

        let judge = |model: &Model, want_db: &str, out: &mut Outcome| {
        if model.ambiguous.is_none() {
                let interrupted = fired && e_text.as_deref().map(|e| e.contains("$interrupt_thrown")).unwrap_or(false);
                if fired && !interrupted {
                    // the interrupt struck after the goal's last instruction, or a library catch-all
                    // swallowed it (C31's subject, not asserted here): the history ran to its end
                    // and the strict oracle below applies
                    out.bump("interrupt_not_delivered_to_goal", 1);
                }
                if interrupted {
                    // relaxed oracle after the injected interrupt
                    let n = got_log_items.len();
                    let is_prefix = n <= model.log.len() && got_log_items.iter().zip(model.log.iter()).all(|(a, b)| a == b);
                    if !is_prefix {
                        out.violate("wrong-view", "log-not-a-prefix-after-interrupt", format!("{ctx}\n answers logged {:?}\n the logical update view gives {:?}", got_log_items, model.log));
                    } else {
                        // states the model passes through around the moment its log has n entries
                        // (a log entry is written after its answer and before the next writer)
                        // allowed: every state recorded while the model's log had n entries, and the
                        // state in force when it reached n entries (the last one recorded before)
                        let mut ok = false;
                        let mut last_lt: Option<&String> = None;
                        for (l, db) in model.states.iter() {
                            if *l < n {
                                last_lt = Some(db);
                            }
                            if *l == n && *db == got_db {
                                ok = true;
                            }
                        }
                        if last_lt.map(|db| *db == got_db).unwrap_or(false) {
                            ok = true;
                        }
                        if !ok {
                            out.violate("wrong-database", "database-not-a-model-state-after-interrupt", format!("{ctx}\n log has {n} entries, database {got_db}\n model states {:?}", model.states));
                        } else {
                            out.bump("interrupted_histories_checked", 1);
                        }
                    }
                    return;
                }
                // strict oracle
                if model.thrown {
                    if e_text.as_deref() != Some("c09_ball") {
                        out.violate("wrong-outcome", "throw-not-caught", format!("{ctx}\n E = {:?}, expected the thrown ball", e_text));
                    }
                } else if !e_is_var {
                    let e = e_text.clone().unwrap_or_default();
                    out.violate("unexpected-exception", format!("exception:{}", e.chars().take(60).collect::<String>()), format!("{ctx}\n threw {e}"));
                    return;
                }
                if got_log_items != model.log {
                    out.violate("wrong-view", "log-differs", format!("{ctx}\n answers logged [{}]\n the logical update view gives [{}]", got_log_items.join(","), model.log.join(",")));
                } else if got_db != want_db {
                    out.violate("wrong-database", "final-database-differs", format!("{ctx}\n final {got_db}\n model {want_db}"));
                } else {
                    // calls agree with clause/2
                    let b3 = match r3.items.first() {
                        Some(Ans::Bind(b)) => canon_anon(&b.replace('"', "")),
                        _ => String::new(),
                    };
                    if !want_db.contains(":-") {
                        let parts3 = super::c40::split_top(&b3, ';');
                        let get3 = |name: &str| parts3.iter().find_map(|p| p.strip_prefix(&format!("{}=", name)).map(|x| x.to_string())).unwrap_or_default();
                        let p_calls = list_items(&get3("P")).join(",");
                        let q_calls: Vec<String> = list_items(&get3("Q"))
                            .iter()
                            .map(|x| {
                                let hp = super::c40::split_top(&strip_functor(x, "-"), ',');
                                hp.iter().map(|s| s.trim().to_string()).collect::<Vec<_>>().join("-")
                            })
                            .collect();
                        let calls_db = format!("p[{}] q[{}]", p_calls, q_calls.join(","));
                        if calls_db != want_db {
                            out.violate("wrong-database", "fresh-calls-differ", format!("{ctx}\n fresh calls enumerate {calls_db}\n model {want_db}"));
                        }
                    }
                    out.bump("histories_checked_against_model", 1);
                }
            }
        };
        let base = out.clone();
        judge(&model, &want_db, &mut out);
        if !out.violations.is_empty() && model.meets > 0 {
            // other worlds of the re-entrant retract/1 question
            let k = model.meets.min(3);
            let first = out.clone();
            let mut accepted = false;
            for bits in 1..(1u32 << k) {
                let choices: Vec<bool> = (0..3).map(|b| bits & (1 << b) == 0).collect();
                let mw = world(choices);
                let wdb = mw.db_text();
                let mut o = base.clone();
                judge(&mw, &wdb, &mut o);
                if o.violations.is_empty() {
                    out = o;
                    accepted = true;
                    break;
                }
            }
            if !accepted {
                out = first;
            }
        }
        if model.meets > 0 {
            out.bump("histories_with_retract_meeting_a_removed_clause", 1);
        }
        self.m = Some(m);
        out
    }

}

/// top-level items of a printed list `[a,b(c,d),e]`
fn list_items(s: &str) -> Vec<String> {
    let s = s.trim();
    if s == "[]" || s.is_empty() {
        return vec![];
    }
    let inner = s.strip_prefix('[').and_then(|x| x.strip_suffix(']')).unwrap_or(s);
    super::c40::split_top(inner, ',').into_iter().map(|x| x.trim().to_string()).collect()
}

/// `-(a,b)` -> `a,b`
fn strip_functor(s: &str, f: &str) -> String {
    s.strip_prefix(&format!("{f}(")).and_then(|x| x.strip_suffix(')')).map(|x| x.to_string()).unwrap_or_else(|| s.to_string())
}

/// `[-(va,true), -(vb,q(_123,va))]` (arity 1) or `[-(-(k,v),true)]` (arity 2) -> model text
fn norm_db(list: &str, arity: usize) -> String {
    let mut out = vec![];
    for item in list_items(list) {
        let inner = strip_functor(&item, "-");
        let parts = super::c40::split_top(&inner, ',');
        if parts.len() != 2 {
            out.push(item);
            continue;
        }
        let head = if arity == 2 {
            let hp = super::c40::split_top(&strip_functor(parts[0].trim(), "-"), ',');
            hp.iter().map(|s| s.trim().to_string()).collect::<Vec<_>>().join("-")
        } else {
            parts[0].trim().to_string()
        };
        let body = parts[1].trim();
        if body == "true" {
            out.push(head);
        } else {
            // q(A,B) or c09_call(q(A,B)) -> pattern text with variables as _
            let b = body.strip_prefix("c09_call(").and_then(|x| x.strip_suffix(')')).unwrap_or(body);
            let b = strip_functor(b, "q");
            let bp: Vec<String> = super::c40::split_top(&b, ',')
                .into_iter()
                .map(|x| {
                    let x = x.trim();
                    if x.starts_with('_') || x.chars().next().map(|c| c.is_ascii_uppercase()).unwrap_or(false) {
                        "_".to_string()
                    } else if x.starts_with("f(_") || x.starts_with("f(A") || (x.starts_with("f(") && x[2..].chars().next().map(|c| c.is_ascii_uppercase() || c == '_').unwrap_or(false)) {
                        "f(_)".to_string()
                    } else {
                        x.to_string()
                    }
                })
                .collect();
            out.push(format!("{}:-{}", head, bp.join("-")));
        }
    }
    format!("[{}]", out.join(","))
}


/// `_123`, `_G5`, `_A` -> `_`
fn canon_anon(s: &str) -> String {
    let cs: Vec<char> = s.chars().collect();
    let mut out = String::new();
    let mut i = 0;
    while i < cs.len() {
        if cs[i] == '_' && (i == 0 || !(cs[i - 1].is_alphanumeric() || cs[i - 1] == '_')) {
            out.push('_');
            i += 1;
            while i < cs.len() && (cs[i].is_alphanumeric() || cs[i] == '_') {
                i += 1;
            }
        } else {
            out.push(cs[i]);
            i += 1;
        }
    }
    out
}
