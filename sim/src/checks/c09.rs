//! C09 — dynamic predicates follow the logical update view.
//!
//! Actors: cursors (partially consumed calls of dynamic predicates with bound/unbound first
//! argument, clause/2, re-entrant retract/1, once/1, \+) and writers (assertz, asserta, retract
//! once, retractall). One machine resumes choice points LIFO, so an interleaving of cursors and
//! writers is realised as one conjunction `op1, ..., opn, fail` whose cursor answers are logged
//! by side effect; database effects survive backtracking, so later operations re-execute
//! against a changed database — exactly the histories the property quantifies over.
//! Oracle: a reference interpreter of the op language over an MVCC list model
//! (clause = (birth, death); a cursor opened at generation g sees birth <= g < death, in list
//! order). Log and final database contents must equal the model's.

use super::{panic_key, Check, Outcome, Tier};
use crate::mach::{Ans, Mach};
use crate::prng::{hash_bytes, Prng};
use scryer_prolog::verif_hooks as vh;
use serde_json::{json, Value};

pub struct C09 {
    m: Option<Mach>,
}

impl C09 {
    pub fn new() -> Self {
        C09 { m: None }
    }
}

const VALS: &[&str] = &["a", "b", "c", "d"];

#[derive(Clone, Debug)]
struct Clause {
    /// p: [v]; q: [k, v]
    args: Vec<String>,
    birth: u64,
    death: u64,
}

#[derive(Default)]
struct Model {
    p: Vec<Clause>,
    q: Vec<Clause>,
    clock: u64,
    log: Vec<String>,
    ambiguous: bool,
    steps: u64,
    /// open clause/2 cursors per predicate (for the deliberately weak clause/2 oracle)
    open_clause_cursors: [u32; 2],
}

fn pred_mut<'a>(m: &'a mut Model, pred: &str) -> &'a mut Vec<Clause> {
    if pred == "p" {
        &mut m.p
    } else {
        &mut m.q
    }
}

fn matches(pat: &[Option<String>], args: &[String]) -> bool {
    pat.iter().zip(args.iter()).all(|(p, a)| p.as_ref().map(|p| p == a).unwrap_or(true))
}

fn pat_of(op: &Value) -> Vec<Option<String>> {
    op["args"].as_array().map(|a| a.iter().map(|x| x.as_str().map(|s| s.to_string())).collect()).unwrap_or_default()
}

/// Reference interpreter: run ops[k..] as a conjunction followed by `fail`.
fn run(m: &mut Model, ops: &[Value], k: usize) {
    m.steps += 1;
    if m.ambiguous || m.steps > 200_000 || m.log.len() > 2_000 {
        m.ambiguous = true;
        return;
    }
    if k == ops.len() {
        return; // fail
    }
    let op = &ops[k];
    let pred = op["pred"].as_str().unwrap_or("p").to_string();
    let pi = if pred == "p" { 0 } else { 1 };
    let pat = pat_of(op);
    let id = k;
    match op["op"].as_str().unwrap_or("") {
        "assertz" | "asserta" => {
            m.clock += 1;
            let c = Clause { args: pat.iter().map(|x| x.clone().unwrap()).collect(), birth: m.clock, death: u64::MAX };
            if m.open_clause_cursors[pi] > 0 {
                m.ambiguous = true;
            }
            let front = op["op"] == "asserta";
            let v = pred_mut(m, &pred);
            if front {
                v.insert(0, c);
            } else {
                v.push(c);
            }
            run(m, ops, k + 1);
        }
        "retract_once" => {
            let now = m.clock;
            let idx = pred_mut(m, &pred).iter().position(|c| c.birth <= now && c.death > now && matches(&pat, &c.args));
            if let Some(i) = idx {
                m.clock += 1;
                let t = m.clock;
                pred_mut(m, &pred)[i].death = t;
                if m.open_clause_cursors[pi] > 0 {
                    m.ambiguous = true;
                }
            }
            run(m, ops, k + 1);
        }
        "retractall" => {
            let now = m.clock;
            let any = pred_mut(m, &pred).iter().any(|c| c.birth <= now && c.death > now && matches(&pat, &c.args));
            if any {
                m.clock += 1;
                let t = m.clock;
                for c in pred_mut(m, &pred).iter_mut() {
                    if c.birth <= now && c.death > now && matches(&pat, &c.args) {
                        c.death = t;
                    }
                }
                if m.open_clause_cursors[pi] > 0 {
                    m.ambiguous = true;
                }
            }
            run(m, ops, k + 1);
        }
        "call" | "clause" => {
            let now = m.clock;
            // snapshot: the clauses that exist when the call starts
            let snap: Vec<Vec<String>> = pred_mut(m, &pred).iter().filter(|c| c.birth <= now && c.death > now && matches(&pat, &c.args)).map(|c| c.args.clone()).collect();
            let is_clause = op["op"] == "clause";
            if is_clause {
                m.open_clause_cursors[pi] += 1;
            }
            for args in snap {
                m.log.push(format!("{}({},{})", if is_clause { "k" } else { "c" }, id, args.join(",")));
                run(m, ops, k + 1);
                if m.ambiguous {
                    break;
                }
            }
            if is_clause {
                m.open_clause_cursors[pi] -= 1;
            }
        }
        "retract" => {
            let now = m.clock;
            let snap: Vec<(usize, Vec<String>)> = pred_mut(m, &pred)
                .iter()
                .enumerate()
                .filter(|(_, c)| c.birth <= now && c.death > now && matches(&pat, &c.args))
                .map(|(i, c)| (i, c.args.clone()))
                .collect();
            // clause positions shift when asserta inserts at the front: address by birth stamp
            let births: Vec<u64> = snap.iter().map(|(i, _)| pred_mut(m, &pred)[*i].birth).collect();
            for ((_, args), birth) in snap.into_iter().zip(births) {
                let pos = pred_mut(m, &pred).iter().position(|c| c.birth == birth && c.args == args);
                let alive = pos.map(|p| pred_mut(m, &pred)[p].death == u64::MAX).unwrap_or(false);
                if !alive {
                    // a clause of this cursor's snapshot was removed by someone else meanwhile:
                    // the statement does not say what a re-entrant retract does then
                    m.ambiguous = true;
                    return;
                }
                m.clock += 1;
                let t = m.clock;
                let p = pos.unwrap();
                pred_mut(m, &pred)[p].death = t;
                if m.open_clause_cursors[pi] > 0 {
                    m.ambiguous = true;
                    return;
                }
                m.log.push(format!("r({},{})", id, args.join(",")));
                run(m, ops, k + 1);
                if m.ambiguous {
                    return;
                }
            }
        }
        "once" => {
            let now = m.clock;
            let first = pred_mut(m, &pred).iter().find(|c| c.birth <= now && c.death > now && matches(&pat, &c.args)).map(|c| c.args.clone());
            if let Some(args) = first {
                m.log.push(format!("o({},{})", id, args.join(",")));
                run(m, ops, k + 1);
            }
        }
        "not" => {
            let now = m.clock;
            let any = pred_mut(m, &pred).iter().any(|c| c.birth <= now && c.death > now && matches(&pat, &c.args));
            if !any {
                m.log.push(format!("n({})", id));
                run(m, ops, k + 1);
            }
        }
        _ => run(m, ops, k + 1),
    }
}

fn head_text(pred: &str, pat: &[Option<String>], id: usize) -> (String, String) {
    // (head with fresh variables for unbound positions, comma list of the argument terms)
    let mut args = vec![];
    for (j, a) in pat.iter().enumerate() {
        match a {
            Some(v) => args.push(v.clone()),
            None => args.push(format!("V{}_{}", id, j)),
        }
    }
    (format!("{}({})", pred, args.join(",")), args.join(","))
}

fn goal_text(op: &Value, id: usize) -> String {
    let pred = op["pred"].as_str().unwrap_or("p");
    let pat = pat_of(op);
    let (head, args) = head_text(pred, &pat, id);
    match op["op"].as_str().unwrap_or("") {
        "assertz" => format!("assertz({head})"),
        "asserta" => format!("asserta({head})"),
        "retract_once" => format!("( retract({head}) -> true ; true )"),
        "retractall" => format!("retractall({head})"),
        "call" => format!("{head}, c09_log(c({id},{args}))"),
        "clause" => format!("clause({head}, true), c09_log(k({id},{args}))"),
        "retract" => format!("retract({head}), c09_log(r({id},{args}))"),
        "once" => format!("once({head}), c09_log(o({id},{args}))"),
        "not" => format!("\\+ {head}, c09_log(n({id}))"),
        _ => "true".into(),
    }
}

fn gen_pat(rng: &mut Prng, pred: &str, bound_all: bool) -> Vec<Value> {
    let n = if pred == "p" { 1 } else { 2 };
    (0..n)
        .map(|_| if bound_all || rng.chance(1, 3) { json!(*rng.pick(VALS)) } else { Value::Null })
        .collect()
}

impl Check for C09 {
    fn id(&self) -> &'static str {
        "C09"
    }

    fn runs(&self, tier: Tier) -> u64 {
        match tier {
            Tier::Quick => 16_000,
            Tier::Thorough => 2_000_000,
        }
    }

    fn batch(&self) -> u64 {
        500
    }

    fn timeout_s(&self) -> f64 {
        30.0
    }

    fn prepare(&mut self, _oracle: Option<&Value>) {
        self.m = Some(Mach::new());
    }

    fn gen(&mut self, rng: &mut Prng, _idx: u64, _tier: Tier) -> Value {
        let mut init = vec![];
        for _ in 0..rng.range(0, 5) {
            let pred = if rng.chance(2, 3) { "p" } else { "q" };
            init.push(json!({"op": "assertz", "pred": pred, "args": gen_pat(rng, pred, true)}));
        }
        let n = rng.range(1, 8);
        let mut ops = vec![];
        let with_clause = rng.chance(1, 4);
        for _ in 0..n {
            let pred = if rng.chance(2, 3) { "p" } else { "q" };
            let r = rng.below(100);
            let (op, bound) = if r < 28 {
                ("call", false)
            } else if r < 36 {
                (if with_clause { "clause" } else { "call" }, false)
            } else if r < 46 {
                ("retract", false)
            } else if r < 52 {
                ("once", false)
            } else if r < 57 {
                ("not", false)
            } else if r < 72 {
                ("assertz", true)
            } else if r < 82 {
                ("asserta", true)
            } else if r < 92 {
                ("retract_once", false)
            } else {
                ("retractall", false)
            };
            ops.push(json!({"op": op, "pred": pred, "args": gen_pat(rng, pred, bound)}));
        }
        json!({"init": init, "ops": ops})
    }

    fn exec(&mut self, case: &Value) -> Outcome {
        let mut out = Outcome::default();
        let mut m = match self.m.take() {
            Some(m) if m.alive() => m,
            _ => Mach::new(),
        };
        let init = case["init"].as_array().cloned().unwrap_or_default();
        let ops = case["ops"].as_array().cloned().unwrap_or_default();

        // model
        let mut model = Model::default();
        run(&mut model, &init, 0); // init ops are writers only: runs them once, then "fails"
        model.log.clear();
        run(&mut model, &ops, 0);
        let now = model.clock;
        let want_p: Vec<String> = model.p.iter().filter(|c| c.birth <= now && c.death > now).map(|c| c.args.join(",")).collect();
        let want_q: Vec<String> = model.q.iter().filter(|c| c.birth <= now && c.death > now).map(|c| c.args.join("-")).collect();

        // implementation
        let setup: Vec<String> = init.iter().enumerate().map(|(i, o)| goal_text(o, i)).collect();
        let q0 = format!("retractall(p(_)), retractall(q(_,_)), retractall(c09_l(_)){}{}.", if setup.is_empty() { "" } else { ", " }, setup.join(", "));
        let r0 = m.all(&q0);
        if let Some(p) = &r0.panic {
            out.violate("panic", panic_key(p), format!("setup `{q0}`: {p}"));
            return out;
        }
        let goals: Vec<String> = ops.iter().enumerate().map(|(i, o)| goal_text(o, i)).collect();
        let q = format!("catch(( {}, fail ; true ), E, true), findall(T, c09_l(T), Log), findall(X, p(X), P), findall(K-X, q(K, X), Q).", goals.join(", "));
        let t0 = vh::ticks();
        vh::set_tick_budget(t0 + 30_000_000);
        let r = m.all(&q);
        vh::set_tick_budget(u64::MAX);
        out.bump("sim_ticks", vh::ticks() - t0);
        let mut h = 0xcbf29ce484222325u64;
        hash_bytes(&mut h, q0.as_bytes());
        hash_bytes(&mut h, q.as_bytes());
        hash_bytes(&mut h, r.text().as_bytes());
        out.hash = h;
        out.transcript = format!("{q0}\n{q}\n => {}", r.text());
        out.nontrivial = model.log.len() > 1 && ops.iter().any(|o| matches!(o["op"].as_str(), Some("assertz" | "asserta" | "retract" | "retract_once" | "retractall")));
        out.bump("model_log_entries", model.log.len() as u64);
        if model.ambiguous {
            out.bump("histories_outside_the_statement", 1);
        }

        if let Some(p) = &r.panic {
            let class = if p.contains("TickBudgetExceeded") { "hang" } else { "panic" };
            out.violate(class, panic_key(p), format!("`{q}` after `{q0}`: {p}"));
            return out;
        }
        let b = match r.items.first() {
            Some(Ans::Bind(b)) => b.clone(),
            _ => {
                out.violate("wrong-outcome", "no-answer", format!("`{q}` gave [{}]", r.text()));
                self.m = Some(m);
                return out;
            }
        };
        let parts = super::c40::split_top(&b, ';');
        let get = |name: &str| parts.iter().find_map(|p| p.strip_prefix(&format!("{}=", name)).map(|x| x.to_string()));
        if let Some(e) = get("E") {
            out.violate("unexpected-exception", format!("exception:{}", e.chars().take(60).collect::<String>()), format!("`{q}` after `{q0}` threw {e}"));
            self.m = Some(m);
            return out;
        }
        if !model.ambiguous {
            let canon = |s: &str| -> String { s.replace('"', "").replace("s[", "[") };
            let got_log = canon(&get("Log").unwrap_or_default());
            let want_log = format!("[{}]", model.log.join(","));
            let got_p = canon(&get("P").unwrap_or_default());
            let got_q = canon(&get("Q").unwrap_or_default());
            let want_p = format!("[{}]", want_p.join(","));
            let want_q = format!("[{}]", want_q.iter().map(|x| format!("-({})", x.replace('-', ","))).collect::<Vec<_>>().join(","));
            let got_log = unstring(&got_log);
            let got_p = unstring(&got_p);
            if got_log != want_log {
                out.violate("wrong-view", "log-differs", format!("setup `{q0}`\n goal `{q}`\n answers logged {got_log}\n the logical update view gives {want_log}"));
            } else if got_p != want_p || got_q != want_q {
                out.violate("wrong-database", "final-database-differs", format!("setup `{q0}`\n goal `{q}`\n final p {got_p} q {got_q}; model p {want_p} q {want_q}"));
            } else {
                out.bump("histories_checked_against_model", 1);
            }
        }
        self.m = Some(m);
        out
    }

    fn shrink(&self, case: &Value) -> Vec<Value> {
        let mut out = vec![];
        let ops = case["ops"].as_array().cloned().unwrap_or_default();
        let init = case["init"].as_array().cloned().unwrap_or_default();
        for o2 in super::shrink_list(&ops) {
            out.push(json!({"init": init, "ops": o2}));
        }
        for i2 in super::shrink_list(&init) {
            out.push(json!({"init": i2, "ops": ops}));
        }
        if !init.is_empty() {
            out.push(json!({"init": [], "ops": ops}));
        }
        out
    }

    fn describe(&self) -> Value {
        json!({
            "real": ["whole Machine: dynamic predicate calls (indexed and unindexed), clause/2, retract/1, assertz/asserta/retractall, generation stamps and clock (compile.rs, dispatch.rs)"],
            "stub": ["scheduler of cursors and writers (an interleaving is realised as one conjunction whose choice points are resumed LIFO by backtracking)"],
            "rule": "<=5 initial facts over p/1 and q/2 (4 values) x <=8 operations (calls with bound/unbound arguments, clause/2, re-entrant retract/1, once/1, \\+, assertz, asserta, retract-once, retractall) run as `op1,...,opn,fail`; distinct = hash of setup, goal and answer; non-trivial = at least one writer ran and more than one cursor answer was logged",
            "assumptions": ["histories in which a re-entrant retract/1 meets a clause of its snapshot that someone else removed, or in which a clause/2 cursor is open while its predicate is modified, are outside what the statement fixes: only 'no crash, no exception' is asserted for them"],
        })
    }
}

/// single-character atom lists print as s"..." strings; expand them back to lists
fn unstring(s: &str) -> String {
    // after quote stripping a string looks like sabc (prefix s + chars) only at list-element
    // level for P = [a,b] -> sab. Handle the whole-value case.
    if let Some(rest) = s.strip_prefix('s') {
        if !rest.starts_with('[') && !rest.is_empty() {
            let items: Vec<String> = rest.chars().map(|c| c.to_string()).collect();
            return format!("[{}]", items.join(","));
        }
    }
    s.to_string()
}
