//! C32 — concurrent machines intern atoms consistently.
//!
//! Real OS threads, one runnable at a time: a baton-passing scheduler parks every participant
//! at the yield points hooked into `AtomTable::build_with`, `Atom::as_ptr` and `AtomTable::new`
//! and releases exactly one, chosen from the run's explicit choice list (uniform random or
//! PCT-style priorities). The atom table starts with a tiny block (64..512 bytes) so that
//! `grow_new` and both RCU `replace`s happen many times per run.
//! Oracle (after every operation and at the end): the relation text <-> atom over everything
//! any thread obtained is a bijection; `as_str(a)` is the text `a` was interned with, for every
//! reader at every later step; all threads got the same table; no panic; no deadlock; all
//! threads finish within the step budget (bounded liveness).

use super::{panic_key, Check, Outcome, Tier};
use crate::detsched::{Mode, Sched};
use crate::mach::guarded;
use crate::prng::{hash_bytes, Prng};
use scryer_prolog::verif_hooks as vh;
use serde_json::{json, Value};
use std::collections::BTreeMap;
use std::sync::{Arc, Mutex};

pub struct C32;

impl C32 {
    pub fn new() -> Self {
        C32
    }
}

const STATIC_TEXTS: &[&str] = &["existence_error", "call_with_inference_limit", "instantiation_error", "representation_error"];

fn gen_text(rng: &mut Prng, pool: u64) -> String {
    match rng.below(20) {
        0 => rng.pick(STATIC_TEXTS).to_string(),
        1 => format!("s{}", rng.below(pool)),                 // short: inlined
        2 => format!("nul\u{0}atom_{}", rng.below(pool)),     // contains NUL
        3 => format!("long_{}_{}", rng.below(pool), "x".repeat(rng.range(40, 700) as usize)),
        4 => format!("é€😀_{}", rng.below(pool)),
        5 => String::new(),
        _ => format!("atom_text_{}", rng.below(pool)),        // overlapping pool, >= 7 bytes
    }
}

impl Check for C32 {
    fn id(&self) -> &'static str {
        "C32"
    }

    fn runs(&self, tier: Tier) -> u64 {
        match tier {
            Tier::Quick => 12_000,
            Tier::Thorough => 600_000,
        }
    }

    fn batch(&self) -> u64 {
        500
    }

    fn timeout_s(&self) -> f64 {
        20.0
    }

    fn gen(&mut self, rng: &mut Prng, _idx: u64, _tier: Tier) -> Value {
        let t = rng.range(2, 4) as usize;
        let pool = *rng.pick(&[2u64, 3, 5, 12]);
        let init = *rng.pick(&[64u64, 64, 128, 256, 512, 4096]);
        let mut threads = vec![];
        for _ in 0..t {
            let n = rng.range(1, 10);
            let mut ops = vec![];
            for _ in 0..n {
                let r = rng.below(10);
                if r < 7 {
                    ops.push(json!({"op": "intern", "text": gen_text(rng, pool)}));
                } else if r < 9 {
                    ops.push(json!({"op": "read", "slot": rng.below(16)}));
                } else {
                    ops.push(json!({"op": "len", "slot": rng.below(16)}));
                }
            }
            threads.push(json!(ops));
        }
        let mode = if rng.chance(1, 3) {
            let mut prio: Vec<u32> = (0..t as u32).map(|i| i + 10).collect();
            rng.shuffle(&mut prio);
            let d = rng.range(1, 3);
            let changes: Vec<Value> = (0..d).map(|_| json!([rng.range(1, 60), rng.below(t as u64)])).collect();
            json!({"pct": {"prio": prio, "changes": changes}})
        } else {
            let style = rng.below(3);
            let n = rng.range(0, 120);
            let choices: Vec<u32> = (0..n)
                .map(|_| match style {
                    0 => rng.below(4) as u32,
                    1 => if rng.chance(4, 5) { 0 } else { rng.below(4) as u32 }, // mostly run-on, rare switches
                    _ => rng.below(1000) as u32,
                })
                .collect();
            json!({"random": choices})
        };
        json!({"init_size": init, "threads": threads, "mode": mode})
    }

    fn exec(&mut self, case: &Value) -> Outcome {
        let mut out = Outcome::default();
        let r = guarded(|| exec_case(case, &mut out));
        if let Err(p) = r {
            out.violate("panic", panic_key(&p.text()), p.text());
        }
        out
    }

    fn shrink(&self, case: &Value) -> Vec<Value> {
        let mut out = vec![];
        let threads = case["threads"].as_array().cloned().unwrap_or_default();
        // drop a thread
        if threads.len() > 2 {
            for i in 0..threads.len() {
                let mut t2 = threads.clone();
                t2.remove(i);
                let mut c = case.clone();
                c["threads"] = json!(t2);
                out.push(c);
            }
        }
        // fewer ops per thread
        for (i, t) in threads.iter().enumerate() {
            let ops = t.as_array().cloned().unwrap_or_default();
            for o2 in super::shrink_list(&ops) {
                let mut c = case.clone();
                c["threads"][i] = json!(o2);
                out.push(c);
            }
        }
        // shorter schedule
        if let Some(ch) = case["mode"]["random"].as_array() {
            if !ch.is_empty() {
                for cut in [ch.len() / 2, ch.len() - 1] {
                    let mut c = case.clone();
                    c["mode"]["random"] = json!(ch[..cut].to_vec());
                    out.push(c);
                }
                for i in 0..ch.len() {
                    if ch[i].as_u64() != Some(0) {
                        let mut c = case.clone();
                        c["mode"]["random"][i] = json!(0);
                        out.push(c);
                    }
                }
            }
        }
        out
    }

    fn describe(&self) -> Value {
        json!({
            "real": ["scryer_prolog AtomTable::new / build_with (lookup, update lock, epoch recheck, block alloc, grow_new, both Arcu::replace calls), Atom::as_ptr/as_str/len, arcu RCU (real crate, real thread-local epoch counters), real OS threads"],
            "stub": ["OS thread scheduler (baton passing: one runnable thread, next one chosen from the case's explicit choice list or PCT priorities at 11 hooked yield sites)", "initial table block size (64..4096 bytes instead of 64 KiB) to force growth"],
            "rule": "2-4 threads x <=10 ops (intern over an overlapping text pool incl. static, inlined, NUL-containing, multi-byte and long texts; read back / len of atoms published by any thread) x explicit schedule (choice list or PCT priorities with 1-3 change points); distinct = hash of the recorded (step, thread, site) schedule trace and results; non-trivial = at least one preemption with more than one enabled thread",
            "assumptions": ["sequentially consistent interleavings at the hooked yield sites only (no weak-memory reordering, no preemption inside arcu itself)", "shuttle/loom are not used: arcu keeps per-thread epoch counters in thread_local! and uses core atomics, which their coroutine threads would mis-simulate"],
        })
    }
}

struct Shared {
    /// registry of published atoms: slot -> (atom index, text)
    slots: Vec<Option<(u64, String)>>,
    text_to_atom: BTreeMap<String, u64>,
    atom_to_text: BTreeMap<u64, String>,
    tables: Vec<usize>,
    violations: Vec<(String, String, String)>,
    log: Vec<String>,
}

fn exec_case(case: &Value, out: &mut Outcome) {
    let threads_json = case["threads"].as_array().cloned().unwrap_or_default();
    let n = threads_json.len();
    let init = case["init_size"].as_u64().unwrap_or(64) as usize;
    let mode = if let Some(p) = case["mode"].get("pct") {
        Mode::Pct {
            prio: p["prio"].as_array().map(|a| a.iter().map(|x| x.as_u64().unwrap_or(0) as u32).collect()).unwrap_or_default(),
            changes: p["changes"].as_array().map(|a| a.iter().map(|x| (x[0].as_u64().unwrap_or(0), x[1].as_u64().unwrap_or(0) as usize)).collect()).unwrap_or_default(),
        }
    } else {
        Mode::Random(case["mode"]["random"].as_array().map(|a| a.iter().map(|x| x.as_u64().unwrap_or(0) as u32).collect()).unwrap_or_default())
    };
    let sched = Sched::new(n, mode, 50_000, Box::new(|site, aux| {
        if site == vh::site::BEFORE_LOCK {
            unsafe { vh::update_lock_is_free(aux) }
        } else {
            true
        }
    }));
    let shared = Arc::new(Mutex::new(Shared {
        slots: vec![None; 16],
        text_to_atom: BTreeMap::new(),
        atom_to_text: BTreeMap::new(),
        tables: vec![],
        violations: vec![],
        log: vec![],
    }));

    let mut handles = vec![];
    for (tid, ops) in threads_json.iter().enumerate() {
        let ops = ops.as_array().cloned().unwrap_or_default();
        let sched = sched.clone();
        let shared = shared.clone();
        handles.push(std::thread::spawn(move || {
            vh::set_atom_table_init_size(init);
            let s2 = sched.clone();
            sched.start(tid);
            vh::set_yield_fn(Some(Box::new(move |site, aux| s2.yield_now(tid, site, aux))));
            let body = std::panic::catch_unwind(std::panic::AssertUnwindSafe(|| {
                let table = vh::AtomTableHandle::acquire().expect("atom table");
                shared.lock().unwrap().tables.push(table.table_addr());
                let mut slot_cursor = tid * 5;
                for op in ops.iter() {
                    match op["op"].as_str().unwrap_or("") {
                        "intern" => {
                            let text = op["text"].as_str().unwrap_or("").to_string();
                            let a = table.intern(&text);
                            let back = vh::atom_text(a);
                            let blen = vh::atom_len(a);
                            let mut sh = shared.lock().unwrap();
                            sh.log.push(format!("t{tid}:intern({:?})={a}", clip(&text)));
                            if back != text {
                                sh.violations.push(("text-lost".into(), "text-lost:after-intern".into(), format!("thread {tid}: intern({:?}) returned atom {a} whose text reads back as {:?}", clip(&text), clip(&back))));
                            }
                            if blen != text.len() {
                                sh.violations.push(("text-lost".into(), "len-wrong:after-intern".into(), format!("thread {tid}: atom {a} for {:?} reports length {blen}", clip(&text))));
                            }
                            if let Some(&prev) = sh.text_to_atom.get(&text) {
                                if prev != a {
                                    sh.violations.push(("not-bijective".into(), "same-text-two-atoms".into(), format!("thread {tid}: text {:?} interned as atom {a}, an earlier intern of the same text gave atom {prev}", clip(&text))));
                                }
                            }
                            if let Some(prev) = sh.atom_to_text.get(&a).cloned() {
                                if prev != text {
                                    sh.violations.push(("not-bijective".into(), "same-atom-two-texts".into(), format!("thread {tid}: atom {a} returned for {:?} was earlier returned for {:?}", clip(&text), clip(&prev))));
                                }
                            }
                            sh.text_to_atom.insert(text.clone(), a);
                            sh.atom_to_text.insert(a, text.clone());
                            let k = slot_cursor % 16;
                            sh.slots[k] = Some((a, text));
                            slot_cursor += 1;
                        }
                        "read" | "len" => {
                            let k = op["slot"].as_u64().unwrap_or(0) as usize % 16;
                            let entry = shared.lock().unwrap().slots[k].clone();
                            if let Some((a, text)) = entry {
                                if op["op"] == "read" {
                                    let back = vh::atom_text(a);
                                    let mut sh = shared.lock().unwrap();
                                    sh.log.push(format!("t{tid}:read({a})"));
                                    if back != text {
                                        sh.violations.push(("text-lost".into(), "text-lost:later-read".into(), format!("thread {tid}: atom {a} interned as {:?} now reads {:?}", clip(&text), clip(&back))));
                                    }
                                } else {
                                    let l = vh::atom_len(a);
                                    let mut sh = shared.lock().unwrap();
                                    sh.log.push(format!("t{tid}:len({a})"));
                                    if l != text.len() {
                                        sh.violations.push(("text-lost".into(), "len-wrong:later-read".into(), format!("thread {tid}: atom {a} interned as {:?} now has length {l}", clip(&text))));
                                    }
                                }
                            }
                        }
                        _ => {}
                    }
                    // operation boundary: a scheduling point of the harness itself
                    sched.yield_now(tid, 0, 0);
                }
                // keep the table alive until every thread is done (the coordinator holds one too)
                table
            }));
            vh::set_yield_fn(None);
            let panic = match &body {
                Ok(_) => None,
                Err(_) => Some(crate::mach::take_panic().map(|p| p.text()).unwrap_or_else(|| "panic".into())),
            };
            sched.finish(tid);
            (body.ok(), panic)
        }));
    }
    sched.kick();

    let mut keep = vec![];
    let mut panics = vec![];
    for h in handles {
        match h.join() {
            Ok((table, panic)) => {
                if let Some(t) = table {
                    keep.push(t);
                }
                if let Some(p) = panic {
                    panics.push(p);
                }
            }
            Err(_) => panics.push("thread panicked outside the guarded body".into()),
        }
    }
    let st = sched.state.lock().unwrap();
    let mut sh = shared.lock().unwrap();
    // final read-back by the coordinator while the table is still alive
    for (a, text) in sh.atom_to_text.clone() {
        let back = vh::atom_text(a);
        if back != text {
            sh.violations.push(("text-lost".into(), "text-lost:final".into(), format!("at the end atom {a} interned as {:?} reads {:?}", clip(&text), clip(&back))));
        }
    }
    let mut tabs = sh.tables.clone();
    tabs.dedup();
    if tabs.len() > 1 {
        sh.violations.push(("two-tables".into(), "two-tables".into(), format!("threads obtained different atom tables: {:?}", tabs)));
    }
    drop(keep);

    let mut h = 0xcbf29ce484222325u64;
    for (step, t, site) in st.trace.iter() {
        hash_bytes(&mut h, &[*step as u8, *t as u8, *site as u8]);
    }
    for l in sh.log.iter() {
        hash_bytes(&mut h, l.as_bytes());
    }
    out.hash = h;
    out.nontrivial = st.preemptions > 0;
    out.bump("sched_steps", st.step);
    out.bump("preemptions", st.preemptions);
    for (site, n) in st.site_hits.iter() {
        out.bump(&format!("preempted_at_site_{}", site), *n);
    }
    out.bump("threads", n as u64);
    out.bump("distinct_atoms", sh.atom_to_text.len() as u64);
    out.transcript = format!("{} | schedule {:?}", sh.log.join(" "), st.trace.iter().take(60).map(|(_, t, s)| format!("{t}@{s}")).collect::<Vec<_>>());
    if std::env::var("VERIF_C32_TRACE").is_ok() {
        for (step, t, site) in st.trace.iter() {
            eprintln!("{step} {t}@{site}");
        }
        for l in sh.log.iter() {
            eprintln!("{l}");
        }
    }
    if st.deadlock {
        out.violate("deadlock", "deadlock", format!("no thread could proceed at step {}: states {:?}", st.step, st.st));
    }
    if st.livelock {
        out.violate("livelock", "livelock", format!("threads did not finish within {} scheduling steps", st.step_limit));
    }
    for p in panics {
        out.violate("panic", panic_key(&p), p);
    }
    for (class, key, detail) in sh.violations.iter() {
        out.violate(class, key.clone(), detail.clone());
    }
}

fn clip(s: &str) -> String {
    if s.chars().count() > 40 {
        format!("{}...({} bytes)", s.chars().take(40).collect::<String>(), s.len())
    } else {
        s.to_string()
    }
}
