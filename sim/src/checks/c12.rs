//! C12 — exceptions unwind precisely and leave the machine consistent.
//!
//! Goals are drawn from a small control DSL (true, fail, marks, bindings of three variables,
//! throw with balls of several shapes, builtin errors, conjunction, disjunction, if-then-else,
//! \+, once, call, catch/3 with several catcher patterns and DSL recovery goals,
//! setup_call_cleanup/3 with a mark as setup and a mark as cleanup). Each goal is run to
//! completion inside findall/3 on the real machine and on a reference interpreter of the DSL
//! (ISO catch/throw: innermost active catch whose catcher unifies with a copy of the ball;
//! bindings since the catch undone; recovery continues normally).
//!
//! Compared (strict configuration): solutions, uncaught ball, the log of ordinary marks in
//! order, and per setup_call_cleanup the number of cleanup marks (== number of completed
//! setups: "exactly once"; the instant at which a cleanup runs is not asserted).
//!
//! Fault configuration: the same goal is run again with an interrupt injected at a seeded
//! instruction — an exception at a point the program did not choose. Relaxed oracle: no
//! crash, no hang; cleanup count <= setup count per id and at most one cleanup missing in
//! total; afterwards the same goal, unfaulted, gives exactly its first result again and the
//! follow-up battery gives fresh-machine answers (the machine is consistent).

use super::{panic_key, Check, Outcome, Tier};
use crate::mach::{Ans, Mach, QOut};
use crate::prng::{hash_bytes, Prng};
use crate::workloads::{FOLLOWUP, FOLLOWUP_CLEAN};
use scryer_prolog::verif_hooks as vh;
use serde_json::{json, Value};
use std::collections::BTreeMap;

pub struct C12 {
    m: Option<Mach>,
    fresh: BTreeMap<String, QOut>,
}

impl C12 {
    pub fn new() -> Self {
        C12 { m: None, fresh: BTreeMap::new() }
    }
}

const VARS: &[&str] = &["X", "Y", "Z"];
const CONSTS: &[&str] = &["a", "b", "1"];

// ---------------------------------------------------------------------------
// balls and catcher patterns
// ---------------------------------------------------------------------------

#[derive(Clone, Debug, PartialEq)]
enum Ball {
    Atom(String),
    /// bc(Value) — None: an unbound variable at the time of the throw
    Bc(Option<String>),
    /// error(Formal, _) with the functor name of Formal
    Err(String),
    Str,
    Big,
}

impl Ball {
    fn text(&self) -> String {
        match self {
            Ball::Atom(a) => a.clone(),
            Ball::Bc(Some(v)) => format!("bc({v})"),
            Ball::Bc(None) => "bc(_)".into(),
            Ball::Err(k) => format!("error({k})"),
            Ball::Str => "sball string".into(),
            Ball::Big => "123456789012345678901234567890".into(),
        }
    }
}

/// (goal text, formal kind)
const BUILTIN_ERRORS: &[(&str, &str)] = &[
    ("atom_length(_, _)", "instantiation_error"),
    ("atom_length(1, a)", "type_error"),
    ("_ is foo + 1", "type_error"),
    ("arg(x, f(a), _)", "type_error"),
    ("functor(_, _, _)", "instantiation_error"),
    ("atom_codes(_, _)", "instantiation_error"),
    ("_ is 1 / 0", "evaluation_error"),
    ("atom_length(abc, -1)", "domain_error"),
    ("number_codes(_, [0'3, 0'x])", "syntax_error"),
    ("call(1)", "type_error"),
];

type Env = [Option<String>; 3];

fn vix(v: &str) -> usize {
    VARS.iter().position(|x| *x == v).unwrap_or(0)
}

/// Unify catcher pattern with (a copy of) the ball in `env`; returns the new env on success.
fn match_pat(pat: &Value, ball: &Ball, env: &Env) -> Option<Env> {
    let kind = pat["p"].as_str().unwrap_or("any");
    match kind {
        "any" => Some(env.clone()),
        "atom" => match ball {
            Ball::Atom(a) if Some(a.as_str()) == pat["a"].as_str() => Some(env.clone()),
            _ => None,
        },
        "bc_any" => match ball {
            Ball::Bc(_) => Some(env.clone()),
            _ => None,
        },
        "bc_var" => match ball {
            Ball::Bc(x) => {
                let i = vix(pat["v"].as_str().unwrap_or("X"));
                let mut e = env.clone();
                match (&env[i], x) {
                    (Some(a), Some(b)) => {
                        if a == b {
                            Some(e)
                        } else {
                            None
                        }
                    }
                    (None, Some(b)) => {
                        e[i] = Some(b.clone());
                        Some(e)
                    }
                    (_, None) => Some(e),
                }
            }
            _ => None,
        },
        "bc_const" => match ball {
            Ball::Bc(Some(x)) if Some(x.as_str()) == pat["a"].as_str() => Some(env.clone()),
            // a ball bc(_) (fresh variable) unifies with bc(c)
            Ball::Bc(None) => Some(env.clone()),
            _ => None,
        },
        "err" => match ball {
            Ball::Err(_) => Some(env.clone()),
            _ => None,
        },
        "type_err" => match ball {
            Ball::Err(k) if k == "type_error" => Some(env.clone()),
            _ => None,
        },
        _ => None,
    }
}

fn pat_text(pat: &Value) -> String {
    match pat["p"].as_str().unwrap_or("any") {
        "any" => "_".into(),
        "atom" => pat["a"].as_str().unwrap_or("b1").to_string(),
        "bc_any" => "bc(_)".into(),
        "bc_var" => format!("bc({})", pat["v"].as_str().unwrap_or("X")),
        "bc_const" => format!("bc({})", pat["a"].as_str().unwrap_or("a")),
        "err" => "error(_, _)".into(),
        "type_err" => "error(type_error(_, _), _)".into(),
        _ => "_".into(),
    }
}

// ---------------------------------------------------------------------------
// reference interpreter (success continuations; exceptions as a control value)
// ---------------------------------------------------------------------------

enum Ctl {
    /// keep backtracking
    Fail,
    /// stop exploring (a solution was committed to by once/if-then-else/\+)
    Stop,
    Throw(Ball),
    /// a ball thrown by the continuation of catch number `id`: that catch is not active for it
    Pass(usize, Ball),
}

#[derive(Default)]
struct Model {
    marks: Vec<i64>,
    setups: BTreeMap<i64, u64>,
    steps: u64,
    too_long: bool,
    next_catch: usize,
}

fn solve(m: &mut Model, g: &Value, env: &Env, sk: &mut dyn FnMut(&mut Model, &Env) -> Ctl) -> Ctl {
    m.steps += 1;
    if m.steps > 20_000 {
        m.too_long = true;
        return Ctl::Stop;
    }
    match g["t"].as_str().unwrap_or("true") {
        "true" => sk(m, env),
        "fail" => Ctl::Fail,
        "mark" => {
            m.marks.push(g["i"].as_i64().unwrap_or(0));
            sk(m, env)
        }
        "bind" => {
            let i = vix(g["v"].as_str().unwrap_or("X"));
            let c = g["c"].as_str().unwrap_or("a").to_string();
            match &env[i] {
                Some(x) if *x != c => Ctl::Fail,
                Some(_) => sk(m, env),
                None => {
                    let mut e = env.clone();
                    e[i] = Some(c);
                    sk(m, &e)
                }
            }
        }
        "throw" => {
            let b = match g["b"].as_str().unwrap_or("b1") {
                "bc" => Ball::Bc(env[vix(g["v"].as_str().unwrap_or("X"))].clone()),
                "str" => Ball::Str,
                "big" => Ball::Big,
                "err" => Ball::Err("type_error".into()),
                a => Ball::Atom(a.to_string()),
            };
            Ctl::Throw(b)
        }
        "berr" => {
            let k = g["k"].as_u64().unwrap_or(0) as usize % BUILTIN_ERRORS.len();
            Ctl::Throw(Ball::Err(BUILTIN_ERRORS[k].1.to_string()))
        }
        "conj" => {
            let b = &g["b"];
            let mut k2 = |m: &mut Model, e: &Env| solve(m, b, e, sk);
            solve(m, &g["a"], env, &mut k2)
        }
        "disj" => match solve(m, &g["a"], env, sk) {
            Ctl::Fail => solve(m, &g["b"], env, sk),
            other => other,
        },
        "call" => solve(m, &g["a"], env, sk),
        "fall" => {
            // findall(t, A, _): every solution of A is produced (marks!), bindings are not kept
            let r = {
                let mut k1 = |_m: &mut Model, _e: &Env| Ctl::Fail;
                solve(m, &g["a"], env, &mut k1)
            };
            match r {
                Ctl::Fail => sk(m, env),
                other => other,
            }
        }
        "forall" => {
            // forall(A, B) == \+ (A, \+ B)
            let inner = json!({"t": "not", "a": {"t": "conj", "a": g["a"].clone(), "b": {"t": "not", "a": g["b"].clone()}}});
            solve(m, &inner, env, sk)
        }
        "once" | "first" | "ite" | "not" => {
            // first solution of the condition
            let cond = &g["a"];
            let mut first: Option<Env> = None;
            let r = {
                let mut k1 = |_m: &mut Model, e: &Env| {
                    first = Some(e.clone());
                    Ctl::Stop
                };
                solve(m, cond, env, &mut k1)
            };
            match r {
                Ctl::Throw(b) => return Ctl::Throw(b),
                Ctl::Pass(i, b) => return Ctl::Pass(i, b),
                _ => {}
            }
            if m.too_long {
                return Ctl::Stop;
            }
            match g["t"].as_str().unwrap() {
                "once" | "first" => match first {
                    Some(e) => sk(m, &e),
                    None => Ctl::Fail,
                },
                "not" => match first {
                    Some(_) => Ctl::Fail,
                    None => sk(m, env),
                },
                _ => match first {
                    Some(e) => solve(m, &g["b"], &e, sk),
                    None => solve(m, &g["c"], env, sk),
                },
            }
        }
        "catch" => {
            m.next_catch += 1;
            let id = m.next_catch;
            let r = {
                let mut k1 = |m: &mut Model, e: &Env| match sk(m, e) {
                    Ctl::Throw(b) => Ctl::Pass(id, b),
                    other => other,
                };
                solve(m, &g["a"], env, &mut k1)
            };
            match r {
                Ctl::Throw(ball) => match match_pat(&g["pat"], &ball, env) {
                    // bindings made since the catch was entered are undone: recovery runs in
                    // the environment of the catch call (plus the catcher's bindings)
                    Some(e2) => solve(m, &g["r"], &e2, sk),
                    None => Ctl::Throw(ball),
                },
                Ctl::Pass(i, ball) if i == id => Ctl::Throw(ball),
                other => other,
            }
        }
        "scc" => {
            match g["s"].as_str().unwrap_or("mark") {
                "fail" => return Ctl::Fail,
                "throw" => return Ctl::Throw(Ball::Atom("b1".into())),
                _ => {}
            }
            let id = g["i"].as_i64().unwrap_or(0);
            m.marks.push(id); // setup mark
            *m.setups.entry(id).or_insert(0) += 1;
            // transparent to solutions and exceptions; the cleanup runs exactly once, at a
            // moment the statement does not fix (accounted by count)
            solve(m, &g["a"], env, sk)
        }
        _ => sk(m, env),
    }
}

fn goal_text(g: &Value) -> String {
    match g["t"].as_str().unwrap_or("true") {
        "true" => "true".into(),
        "fail" => "fail".into(),
        "mark" => format!("c12_mark({})", g["i"]),
        "bind" => format!("{} = {}", g["v"].as_str().unwrap_or("X"), g["c"].as_str().unwrap_or("a")),
        "throw" => match g["b"].as_str().unwrap_or("b1") {
            "bc" => format!("throw(bc({}))", g["v"].as_str().unwrap_or("X")),
            "str" => "throw(\"ball string\")".into(),
            "big" => "throw(123456789012345678901234567890)".into(),
            "err" => "throw(error(type_error(t, v), ctx))".into(),
            a => format!("throw({a})"),
        },
        "berr" => BUILTIN_ERRORS[g["k"].as_u64().unwrap_or(0) as usize % BUILTIN_ERRORS.len()].0.to_string(),
        "conj" => format!("({}, {})", goal_text(&g["a"]), goal_text(&g["b"])),
        "disj" => format!("({} ; {})", goal_text(&g["a"]), goal_text(&g["b"])),
        "call" => format!("call({})", goal_text(&g["a"])),
        "once" => format!("once({})", goal_text(&g["a"])),
        "first" => format!("c12_first({})", goal_text(&g["a"])),
        "fall" => format!("findall(t, {}, _)", goal_text(&g["a"])),
        "forall" => format!("forall({}, {})", goal_text(&g["a"]), goal_text(&g["b"])),
        "not" => format!("\\+ {}", goal_text(&g["a"])),
        "ite" => format!("({} -> {} ; {})", goal_text(&g["a"]), goal_text(&g["b"]), goal_text(&g["c"])),
        "catch" => format!("catch({}, {}, {})", goal_text(&g["a"]), pat_text(&g["pat"]), goal_text(&g["r"])),
        "scc" => {
            let s = match g["s"].as_str().unwrap_or("mark") {
                "fail" => "fail".to_string(),
                "throw" => "throw(b1)".to_string(),
                _ => format!("c12_mark({})", g["i"]),
            };
            // the cleanup always succeeds, leaves no binding and lets no exception out, but may
            // catch and throw internally (while the goal's own exception is unwinding)
            let i = g["i"].as_i64().unwrap_or(0);
            let extra = match g["cl"].as_u64().unwrap_or(0) {
                1 => ", catch(throw(cl), cl, true)".to_string(),
                2 => ", \\+ catch(throw(cl), cl, fail)".to_string(),
                3 => format!(", catch(throw(cl), _, c12_mark({}))", i + 2000),
                4 => ", catch(catch(throw(cl), nomatch, true), cl, true)".to_string(),
                5 => ", findall(Q, catch(member(Q, [1,2]), _, true), _)".to_string(),
                6 => ", catch(catch(throw(cl), cl, throw(cl2)), cl2, true)".to_string(),
                _ => String::new(),
            };
            format!("setup_call_cleanup({}, {}, (c12_mark({}){}))", s, goal_text(&g["a"]), i + 1000, extra)
        }
        _ => "true".into(),
    }
}

fn gen_goal(rng: &mut Prng, depth: u32, next_mark: &mut i64) -> Value {
    let leaf = depth == 0 || rng.chance(1, 4);
    if leaf {
        return match rng.below(12) {
            0 => json!({"t": "true"}),
            1 => json!({"t": "fail"}),
            2..=4 => {
                *next_mark += 1;
                json!({"t": "mark", "i": *next_mark})
            }
            5..=7 => json!({"t": "bind", "v": *rng.pick(VARS), "c": *rng.pick(CONSTS)}),
            8..=9 => {
                let b = *rng.pick(&["b1", "b2", "bc", "bc", "str", "big", "err"]);
                json!({"t": "throw", "b": b, "v": *rng.pick(VARS)})
            }
            10 => json!({"t": "berr", "k": rng.below(BUILTIN_ERRORS.len() as u64)}),
            _ => {
                *next_mark += 1;
                json!({"t": "mark", "i": *next_mark})
            }
        };
    }
    match rng.below(20) {
        0..=4 => json!({"t": "conj", "a": gen_goal(rng, depth - 1, next_mark), "b": gen_goal(rng, depth - 1, next_mark)}),
        5..=7 => json!({"t": "disj", "a": gen_goal(rng, depth - 1, next_mark), "b": gen_goal(rng, depth - 1, next_mark)}),
        8 => json!({"t": "ite", "a": gen_goal(rng, depth - 1, next_mark), "b": gen_goal(rng, depth - 1, next_mark), "c": gen_goal(rng, depth - 1, next_mark)}),
        9 => json!({"t": "not", "a": gen_goal(rng, depth - 1, next_mark)}),
        10 => json!({"t": "once", "a": gen_goal(rng, depth - 1, next_mark)}),
        11 => match rng.below(4) {
            0 => json!({"t": "call", "a": gen_goal(rng, depth - 1, next_mark)}),
            1 => json!({"t": "first", "a": gen_goal(rng, depth - 1, next_mark)}),
            2 => json!({"t": "fall", "a": gen_goal(rng, depth - 1, next_mark)}),
            _ => json!({"t": "forall", "a": gen_goal(rng, depth - 1, next_mark), "b": gen_goal(rng, depth - 1, next_mark)}),
        },
        12..=16 => {
            let pat = match rng.below(10) {
                0..=1 => json!({"p": "any"}),
                2 => json!({"p": "atom", "a": "b1"}),
                3 => json!({"p": "atom", "a": "b2"}),
                4 => json!({"p": "bc_any"}),
                5..=6 => json!({"p": "bc_var", "v": *rng.pick(VARS)}),
                7 => json!({"p": "bc_const", "a": *rng.pick(CONSTS)}),
                8 => json!({"p": "err"}),
                _ => json!({"p": "type_err"}),
            };
            json!({"t": "catch", "a": gen_goal(rng, depth - 1, next_mark), "pat": pat, "r": gen_goal(rng, depth.saturating_sub(2), next_mark)})
        }
        _ => {
            *next_mark += 1;
            let s = match rng.below(10) {
                0 => "fail",
                1 => "throw",
                _ => "mark",
            };
            let cl = if rng.chance(1, 2) { rng.range(1, 6) } else { 0 };
            json!({"t": "scc", "s": s, "cl": cl, "i": *next_mark + 100, "a": gen_goal(rng, depth - 1, next_mark)})
        }
    }
}

fn shrink_goal(g: &Value) -> Vec<Value> {
    let mut out = vec![];
    let t = g["t"].as_str().unwrap_or("");
    // replace by a sub-goal
    for k in ["a", "b", "c", "r"] {
        if g[k].is_object() {
            out.push(g[k].clone());
        }
    }
    if !matches!(t, "true" | "fail") {
        out.push(json!({"t": "true"}));
    }
    // shrink inside
    for k in ["a", "b", "c", "r"] {
        if g[k].is_object() {
            for s in shrink_goal(&g[k]) {
                let mut g2 = g.clone();
                g2[k] = s;
                out.push(g2);
            }
        }
    }
    out
}

fn canon_vars(s: &str) -> String {
    // _123 / _G12 -> _
    let mut out = String::new();
    let cs: Vec<char> = s.chars().collect();
    let mut i = 0;
    while i < cs.len() {
        if cs[i] == '_' && (i == 0 || !(cs[i - 1].is_alphanumeric() || cs[i - 1] == '_')) {
            out.push('_');
            i += 1;
            while i < cs.len() && (cs[i].is_alphanumeric() || cs[i] == '_') {
                i += 1;
            }
        } else {
            out.push(cs[i]);
            i += 1;
        }
    }
    out
}

struct Observed {
    result: String,
    marks: Vec<i64>,
}

impl C12 {
    /// run the goal; returns the observation or a violation triple
    fn observe(m: &mut Mach, goal: &str, interrupt_permille: Option<(u64, u64)>, out: &mut Outcome) -> Result<(Observed, u64, bool), (String, String, String)> {
        let _ = m.all("c12_reset.");
        let q = format!("c12_run(w(X,Y,Z), {goal}, R).");
        let t0 = vh::ticks();
        vh::set_tick_budget(t0 + 2_000_000);
        vh::set_p_trace(true);
        let r = m.run_with(&q, usize::MAX, |k| {
            if k == 0 {
                if let Some((pm, n)) = interrupt_permille {
                    vh::interrupt_at(vh::ticks() + 1 + pm * n / 1000);
                }
            }
        });
        let fired = interrupt_permille.is_some() && vh::interrupt_fired_at() != 0;
        vh::interrupt_at(0);
        vh::clear_global_interrupt();
        vh::set_tick_budget(u64::MAX);
        let ticks = vh::ticks() - t0;
        out.bump("sim_ticks", ticks);
        if let Some(p) = &r.panic {
            if p.contains("TickBudgetExceeded") {
                let (site, d) = m.hang_site().unwrap_or_default();
                vh::set_p_trace(false);
                return Err(("hang".into(), format!("hang-in:{site}"), format!("`{q}` does not terminate (2M instructions); last instructions:{d}")));
            }
            vh::set_p_trace(false);
            return Err(("panic".into(), panic_key(p), format!("`{q}`: {p}")));
        }
        vh::set_p_trace(false);
        let result = match r.items.first() {
            Some(Ans::Bind(b)) => super::c40::split_top(b, ';').iter().find_map(|p| p.strip_prefix("R=").map(|x| x.replace('"', ""))).unwrap_or_default(),
            Some(Ans::Err(e)) | Some(Ans::Exc(e)) => format!("escaped({})", e.replace('"', "")),
            other => format!("{:?}", other.map(|a| a.text())),
        };
        let r2 = m.all("c12_marks(Ms, As).");
        if let Some(p) = &r2.panic {
            return Err(("panic".into(), format!("after-goal:{}", panic_key(p)), format!("reading the mark log after `{q}`: {p}")));
        }
        let parse = |t: &str| -> Vec<i64> { t.trim_start_matches('[').trim_end_matches(']').split(',').filter_map(|x| x.trim().parse().ok()).collect() };
        let (marks, asserted): (Vec<i64>, Vec<i64>) = match r2.items.first() {
            Some(Ans::Bind(b)) => {
                let parts = super::c40::split_top(&b.replace('"', ""), ';');
                let get = |n: &str| parts.iter().find_map(|p| p.strip_prefix(n).map(|x| x.to_string())).unwrap_or_default();
                (parse(&get("Ms=")), parse(&get("As=")))
            }
            _ => (vec![], vec![]),
        };
        if interrupt_permille.is_none() && marks != asserted {
            // every mark is also asserted into the database: an assertz that succeeded must be visible
            return Err(("database-update-lost".into(), "assertz-in-exception-context-lost".into(), format!("`{q}`: marks logged {:?}, but the clauses asserted alongside them are {:?}", marks, asserted)));
        }
        Ok((Observed { result: canon_vars(&result), marks }, ticks, fired))
    }
}

fn model_result(case: &Value) -> Option<(String, Vec<i64>, BTreeMap<i64, u64>)> {
    let mut m = Model::default();
    let env: Env = [None, None, None];
    let mut sols: Vec<String> = vec![];
    let r = {
        let mut k = |_m: &mut Model, e: &Env| {
            let f = |x: &Option<String>| x.clone().unwrap_or_else(|| "_".into());
            sols.push(format!("w({},{},{})", f(&e[0]), f(&e[1]), f(&e[2])));
            Ctl::Fail
        };
        solve(&mut m, &case["goal"], &env, &mut k)
    };
    if m.too_long {
        return None;
    }
    let result = match r {
        Ctl::Throw(b) | Ctl::Pass(_, b) => format!("ball({})", b.text()),
        _ => format!("sols([{}])", sols.join(",")),
    };
    Some((result, m.marks, m.setups))
}

/// compare an observed result with the model's (builtin errors: shape and kind of Formal only)
fn result_matches(got: &str, want: &str) -> bool {
    if let Some(kind) = want.strip_prefix("ball(error(").and_then(|x| x.strip_suffix("))")) {
        // got: ball(error(type_error(integer,a),atom_length/2))
        return got.starts_with(&format!("ball(error({kind}")) && got.ends_with("))") && super::c40::split_top(got.trim_start_matches("ball(error(").trim_end_matches("))"), ',').len() == 2;
    }
    got == want
}

impl Check for C12 {
    fn id(&self) -> &'static str {
        "C12"
    }

    fn runs(&self, tier: Tier) -> u64 {
        match tier {
            Tier::Quick => 30_000,
            Tier::Thorough => 2_000_000,
        }
    }

    fn batch(&self) -> u64 {
        400
    }

    fn timeout_s(&self) -> f64 {
        30.0
    }

    fn make_oracle(&mut self) -> Value {
        let mut m = Mach::new();
        let mut o = serde_json::Map::new();
        let _ = m.all(FOLLOWUP_CLEAN);
        for q in FOLLOWUP {
            let r = m.all(q);
            o.insert(q.to_string(), r.to_json());
        }
        // self-check on a second fresh machine
        let mut m2 = Mach::new();
        let _ = m2.all(FOLLOWUP_CLEAN);
        for q in FOLLOWUP {
            let r = m2.all(q);
            if o[*q] != r.to_json() {
                eprintln!("oracle self-check failed for {q}");
                std::process::exit(2);
            }
        }
        Value::Object(o)
    }

    fn prepare(&mut self, oracle: Option<&Value>) {
        if let Some(o) = oracle.and_then(|o| o.as_object()) {
            for (k, v) in o {
                self.fresh.insert(k.clone(), QOut::from_json(v));
            }
        }
        self.m = Some(Mach::new());
    }

    fn gen(&mut self, rng: &mut Prng, _idx: u64, tier: Tier) -> Value {
        let mut next_mark = 0i64;
        let depth = rng.range(1, if tier == Tier::Thorough { 6 } else { 5 }) as u32;
        let goal = gen_goal(rng, depth, &mut next_mark);
        let fault = if rng.chance(1, 2) { Some(rng.below(1000)) } else { None };
        json!({"goal": goal, "interrupt_permille": fault, "followup": rng.below(FOLLOWUP.len() as u64)})
    }

    fn exec(&mut self, case: &Value) -> Outcome {
        let mut out = Outcome::default();
        let mut m = match self.m.take() {
            Some(m) if m.alive() => m,
            _ => Mach::new(),
        };
        let goal = goal_text(&case["goal"]);
        let mut h = 0xcbf29ce484222325u64;
        hash_bytes(&mut h, goal.as_bytes());
        out.transcript = goal.clone();

        let run = (|| -> Result<(), (String, String, String)> {
            // strict configuration
            let (obs, ticks, _) = Self::observe(&mut m, &goal, None, &mut out)?;
            hash_bytes(&mut h, obs.result.as_bytes());
            out.transcript = format!("{goal}\n => {} marks {:?}", obs.result, obs.marks);
            match model_result(case) {
                None => out.bump("goals_too_long_for_the_model", 1),
                Some((want, want_marks, setups)) => {
                    if !result_matches(&obs.result, &want) {
                        return Err(("wrong-outcome".into(), "result-differs".into(), format!("`{goal}`\n gave {}\n reference semantics give {want}", obs.result)));
                    }
                    let plain: Vec<i64> = obs.marks.iter().cloned().filter(|x| *x < 1000).collect();
                    if plain != want_marks {
                        return Err(("wrong-trace".into(), "marks-differ".into(), format!("`{goal}`\n marks {:?}\n reference semantics give {:?}", plain, want_marks)));
                    }
                    let mut cleanups: BTreeMap<i64, u64> = BTreeMap::new();
                    let mut aux: BTreeMap<i64, u64> = BTreeMap::new();
                    for x in obs.marks.iter().filter(|x| **x >= 1000) {
                        if *x >= 2000 {
                            *aux.entry(*x - 2000).or_insert(0) += 1;
                        } else {
                            *cleanups.entry(*x - 1000).or_insert(0) += 1;
                        }
                    }
                    for (id, n) in aux.iter() {
                        if cleanups.get(id) != Some(n) {
                            return Err(("cleanup-count".into(), "cleanup-recovery-count".into(), format!("`{goal}`\n the recovery goal inside the cleanup of setup_call_cleanup {id} ran {n} times, the cleanup {:?} times (marks {:?})", cleanups.get(id), obs.marks)));
                        }
                    }
                    if cleanups != setups {
                        return Err(("cleanup-count".into(), "cleanup-not-exactly-once".into(), format!("`{goal}`\n cleanups run per setup_call_cleanup {:?}, setups completed {:?} (marks {:?})", cleanups, setups, obs.marks)));
                    }
                    if !setups.is_empty() {
                        out.bump("goals_with_cleanup_checked", 1);
                    }
                    if obs.result.starts_with("ball(") {
                        out.bump("goals_ending_in_uncaught_ball", 1);
                    }
                    out.bump("goals_checked_against_reference", 1);
                }
            }

            // fault configuration
            if let Some(pm) = case["interrupt_permille"].as_u64() {
                let (fobs, _, fired) = Self::observe(&mut m, &goal, Some((pm, ticks)), &mut out)?;
                hash_bytes(&mut h, fobs.result.as_bytes());
                if fired {
                    out.nontrivial = true;
                    out.bump("fault.interrupt_fired", 1);
                    let mut setups: BTreeMap<i64, i64> = BTreeMap::new();
                    for x in fobs.marks.iter() {
                        if *x >= 2000 {
                            continue;
                        }
                        if *x >= 1000 {
                            *setups.entry(*x - 1000).or_insert(0) -= 1;
                        } else if *x > 100 {
                            *setups.entry(*x).or_insert(0) += 1;
                        }
                    }
                    let missing: i64 = setups.values().filter(|v| **v > 0).sum();
                    if setups.values().any(|v| *v < 0) {
                        return Err(("cleanup-count".into(), "cleanup-ran-twice-after-interrupt".into(), format!("`{goal}` interrupted at {} of {ticks}: marks {:?}", 1 + pm * ticks / 1000, fobs.marks)));
                    }
                    if missing > 1 {
                        return Err(("cleanup-count".into(), "cleanups-lost-after-interrupt".into(), format!("`{goal}` interrupted at {} of {ticks}: {missing} cleanups did not run, marks {:?}", 1 + pm * ticks / 1000, fobs.marks)));
                    }
                    if missing == 1 {
                        out.bump("probe.one_cleanup_lost_to_interrupt", 1);
                    }
                    if fobs.result.contains("$interrupt_thrown") {
                        out.bump("interrupt_reached_top", 1);
                    }
                    // the machine is consistent: the same goal gives its first result again
                    let (again, _, _) = Self::observe(&mut m, &goal, None, &mut out)?;
                    if again.result != obs.result || again.marks != obs.marks {
                        return Err(("inconsistent-after-exception".into(), "rerun-differs-after-interrupt".into(), format!("`{goal}`\n first gave {} {:?}\n after an interrupt at instruction {} of {ticks} it gives {} {:?}", obs.result, obs.marks, 1 + pm * ticks / 1000, again.result, again.marks)));
                    }
                    // and an unrelated follow-up query gives the fresh-machine answer
                    let fq = FOLLOWUP[case["followup"].as_u64().unwrap_or(0) as usize % FOLLOWUP.len()];
                    if let Some(want) = self.fresh.get(fq) {
                        let _ = m.all(FOLLOWUP_CLEAN);
                        let got = m.all(fq);
                        if let Some(p) = &got.panic {
                            return Err(("panic".into(), format!("followup:{}", panic_key(p)), format!("`{fq}` after `{goal}` interrupted: {p}")));
                        }
                        if got.text() != want.text() {
                            return Err(("inconsistent-after-exception".into(), "followup-differs".into(), format!("`{fq}` after `{goal}` interrupted at {}: got {}, fresh machine {}", 1 + pm * ticks / 1000, got.text(), want.text())));
                        }
                        out.bump("followups_checked", 1);
                    }
                }
            }
            Ok(())
        })();
        out.hash = h;
        // a literal non-callable sub-goal makes call/N fall back to the unexpanded goal
        // (loader:expand_call_goal/3), which loses the module of every meta-argument in it:
        // violations in such goals are keyed apart (known finding)
        let hazard = goal.contains("call(1)");
        if hazard {
            out.bump("goals_with_non_callable_subgoal", 1);
        }
        match run {
            Ok(()) => self.m = Some(m),
            Err((class, key, detail)) => {
                let key = if hazard { format!("non-callable-subgoal:{}", key.split(':').next().unwrap_or("")) } else { key };
                out.violate(&class, key, detail);
                if m.alive() {
                    self.m = Some(m);
                }
            }
        }
        out
    }

    fn shrink(&self, case: &Value) -> Vec<Value> {
        let mut out = vec![];
        for g in shrink_goal(&case["goal"]) {
            let mut c = case.clone();
            c["goal"] = g;
            out.push(c);
        }
        if !case["interrupt_permille"].is_null() {
            let mut c = case.clone();
            c["interrupt_permille"] = Value::Null;
            out.push(c);
        }
        out
    }

    fn describe(&self) -> Value {
        json!({
            "real": ["whole Machine: catch/3, throw/1, '$get_ball', unwind_stack, setup_call_cleanup/3 (iso_ext.pl scc_helper, run_cleaners_*), builtin error construction (machine_errors.rs), findall/3", "interrupt delivery in the fault configuration"],
            "stub": ["interrupt source (instruction clock)"],
            "rule": "goal from a control DSL of depth <= 4 over 3 variables and 3 constants: true/fail/marks/bindings/throw (atoms, bc(Var) sharing a variable with catchers, error/2, string, bignum)/10 builtin errors/conjunction/disjunction/if-then-else/\\+/once/call/catch with 9 catcher shapes and DSL recovery goals/setup_call_cleanup with marks; each goal run to completion in findall/3 and compared with a reference interpreter; 1 run in 2 re-runs the goal with an interrupt at a seeded instruction; distinct = hash of goal and results; non-trivial = the interrupt fired",
            "assumptions": [
                "the instant at which a cleanup runs is not asserted, only that it runs exactly once per completed setup (all choice points are gone when the log is read)",
                "for builtin errors only the shape error(Formal, Context) and the ISO kind of Formal are asserted",
                "after an injected interrupt: cleanup count <= setup count and at most one cleanup missing (an interrupt may strike between the end of the setup and the installation of the cleaner); the goal re-run and one follow-up query must behave as on a fresh machine"
            ],
        })
    }
}
