//! C26 — dif/2, freeze/2 and when/2 are insensitive to posting order.
//!
//! Suspended goals are the tasks, bindings the events, the verify-attributes hook the
//! dispatcher. A case fixes a multiset of operations over three variables — dif(S,T),
//! freeze(V, mark), when(Cond, mark), S = T (binding / aliasing / structure unification) — and
//! the scheduler draws several orders of that multiset. Each order runs as one conjunction
//! with a position mark after every operation, followed by probes: further bindings tried
//! inside \+ \+ that test the remaining constraints semantically.
//!
//! Oracle: a reference constraint store (mgu of the equations with occurs check; a dif pair is
//! violated when its sides are identical, entailed when they do not unify, pending
//! otherwise; freeze/when conditions are monotone). Per order: success/failure, final
//! bindings, for every suspended goal the segment of the log in which it woke up ("as soon
//! as": before the position mark of the operation that enabled it) and that it woke exactly
//! once, and the outcome and wake-ups of every probe. Hence all orders agree with each other.
//! No fault is injected: the order of posts and bindings is the whole search space.

use super::{panic_key, Check, Outcome, Tier};
use crate::mach::{Ans, Mach};
use crate::prng::{hash_bytes, Prng};
use scryer_prolog::verif_hooks as vh;
use serde_json::{json, Value};
use std::collections::BTreeMap;

pub struct C26 {
    m: Option<Mach>,
}

impl C26 {
    pub fn new() -> Self {
        C26 { m: None }
    }
}

const VNAMES: &[&str] = &["A", "B", "C"];

#[derive(Clone, Debug, PartialEq)]
enum T {
    V(usize),
    A(String),
    F(Box<T>),
    G(Box<T>, Box<T>),
}

fn term_of(v: &Value) -> T {
    if let Some(i) = v["v"].as_u64() {
        T::V(i as usize)
    } else if let Some(a) = v["a"].as_str() {
        T::A(a.to_string())
    } else if let Some(f) = v["f"].as_array() {
        T::F(Box::new(term_of(&f[0])))
    } else if let Some(g) = v["g"].as_array() {
        T::G(Box::new(term_of(&g[0])), Box::new(term_of(&g[1])))
    } else {
        T::A("a".into())
    }
}

fn term_text(t: &T) -> String {
    match t {
        T::V(i) if *i < 3 => VNAMES[*i].to_string(),
        T::V(i) => format!("_F{i}"),
        T::A(a) => a.clone(),
        T::F(x) => format!("f({})", term_text(x)),
        T::G(x, y) => format!("g({},{})", term_text(x), term_text(y)),
    }
}

#[derive(Clone, Default)]
struct Store {
    bind: BTreeMap<usize, T>,
    cyclic: bool,
}

impl Store {
    fn walk(&self, t: &T) -> T {
        let mut t = t.clone();
        loop {
            match &t {
                T::V(i) => match self.bind.get(i) {
                    Some(x) => t = x.clone(),
                    None => return t,
                },
                _ => return t,
            }
        }
    }

    fn resolve(&self, t: &T) -> T {
        match self.walk(t) {
            T::F(x) => T::F(Box::new(self.resolve(&x))),
            T::G(x, y) => T::G(Box::new(self.resolve(&x)), Box::new(self.resolve(&y))),
            other => other,
        }
    }

    fn occurs(&self, v: usize, t: &T) -> bool {
        match self.walk(t) {
            T::V(i) => i == v,
            T::A(_) => false,
            T::F(x) => self.occurs(v, &x),
            T::G(x, y) => self.occurs(v, &x) || self.occurs(v, &y),
        }
    }

    fn unify(&mut self, s: &T, t: &T) -> bool {
        let s = self.walk(s);
        let t = self.walk(t);
        match (&s, &t) {
            (T::V(i), T::V(j)) if i == j => true,
            (T::V(i), _) => {
                if self.occurs(*i, &t) {
                    self.cyclic = true;
                    return false;
                }
                self.bind.insert(*i, t.clone());
                true
            }
            (_, T::V(j)) => {
                if self.occurs(*j, &s) {
                    self.cyclic = true;
                    return false;
                }
                self.bind.insert(*j, s.clone());
                true
            }
            (T::A(a), T::A(b)) => a == b,
            (T::F(x), T::F(y)) => self.unify(x, y),
            (T::G(x1, y1), T::G(x2, y2)) => self.unify(x1, x2) && self.unify(y1, y2),
            _ => false,
        }
    }

    fn nonvar(&self, t: &T) -> bool {
        !matches!(self.walk(t), T::V(_))
    }

    fn ground(&self, t: &T) -> bool {
        match self.walk(t) {
            T::V(_) => false,
            T::A(_) => true,
            T::F(x) => self.ground(&x),
            T::G(x, y) => self.ground(&x) && self.ground(&y),
        }
    }

    /// dif(s,t): Some(true) violated (identical), Some(false) entailed, None pending
    fn dif_state(&mut self, s: &T, t: &T) -> Option<bool> {
        let mut c = self.clone();
        let n0 = c.bind.len();
        if !c.unify(s, t) {
            if c.cyclic {
                self.cyclic = true;
            }
            return Some(false);
        }
        if c.bind.len() == n0 {
            Some(true)
        } else {
            None
        }
    }

    fn cond(&self, c: &Value) -> bool {
        match c["c"].as_str().unwrap_or("nonvar") {
            "nonvar" => self.nonvar(&term_of(&c["t"])),
            "ground" => self.ground(&term_of(&c["t"])),
            "and" => self.cond(&c["l"]) && self.cond(&c["r"]),
            "or" => self.cond(&c["l"]) || self.cond(&c["r"]),
            _ => false,
        }
    }
}

fn term_vars(t: &T, acc: &mut Vec<usize>) {
    match t {
        T::V(i) => {
            if !acc.contains(i) {
                acc.push(*i)
            }
        }
        T::A(_) => {}
        T::F(x) => term_vars(x, acc),
        T::G(x, y) => {
            term_vars(x, acc);
            term_vars(y, acc)
        }
    }
}

fn cond_vars(c: &Value) -> Vec<usize> {
    let mut acc = vec![];
    fn go(c: &Value, acc: &mut Vec<usize>) {
        match c["c"].as_str().unwrap_or("") {
            "and" | "or" => {
                go(&c["l"], acc);
                go(&c["r"], acc)
            }
            _ => term_vars(&term_of(&c["t"]), acc),
        }
    }
    go(c, &mut acc);
    acc
}

fn cond_text(c: &Value) -> String {
    match c["c"].as_str().unwrap_or("nonvar") {
        "nonvar" => format!("nonvar({})", term_text(&term_of(&c["t"]))),
        "ground" => format!("ground({})", term_text(&term_of(&c["t"]))),
        "and" => format!("({}, {})", cond_text(&c["l"]), cond_text(&c["r"])),
        "or" => format!("({} ; {})", cond_text(&c["l"]), cond_text(&c["r"])),
        _ => "nonvar(A)".into(),
    }
}

/// The mark a suspended goal leaves: its operation's index, or the index of the operation it is
/// a verbatim copy of (two posts of one and the same goal term are two suspended goals).
fn mark_id(op: &Value, id: usize) -> usize {
    op["mid"].as_u64().map(|m| m as usize).unwrap_or(id)
}

fn op_text(op: &Value, id: usize) -> String {
    let id = mark_id(op, id);
    match op["op"].as_str().unwrap_or("") {
        "dif" => format!("dif({}, {})", term_text(&term_of(&op["s"])), term_text(&term_of(&op["t"]))),
        "eq" => format!("{} = {}", term_text(&term_of(&op["s"])), term_text(&term_of(&op["t"]))),
        "freeze" => format!("freeze({}, (c26_mark(w({})){}))", VNAMES[op["v"].as_u64().unwrap_or(0) as usize % 3], id, act_text(&op["act"])),
        "when" => format!("when({}, (c26_mark(w({})){}))", cond_text(&op["cond"]), id, act_text(&op["act"])),
        _ => "true".into(),
    }
}

/// what the model expects of one order
struct Expect {
    /// the conjunction of the operations succeeds
    ok: bool,
    /// per position k (1-based, after op k): the set of goal ids that wake up during op k
    wakes: Vec<Vec<usize>>,
    /// final t(A,B,C), variables canonicalised
    bindings: String,
    /// per probe: (succeeds, goal ids woken during the probe)
    probes: Vec<(bool, Vec<usize>)>,
    invalid: bool,
}

#[derive(Clone)]
struct Pending {
    difs: Vec<(T, T)>,
    /// (goal id, freeze var, action)
    freezes: Vec<(usize, usize, Value)>,
    /// (goal id, condition, action)
    whens: Vec<(usize, Value, Value)>,
}

/// the binding a woken goal performs after its mark (`null`: none)
fn act_text(act: &Value) -> String {
    if act.is_null() {
        String::new()
    } else {
        format!(", {} = {}", VNAMES[act["v"].as_u64().unwrap_or(0) as usize % 3], term_text(&term_of(&act["t"])))
    }
}

/// after a change of the store: wake-ups (whose actions may bind further variables and wake
/// further goals: iterate to a fixpoint) and dif violation
fn settle(st: &mut Store, p: &mut Pending, woken: &mut Vec<usize>) -> bool {
    loop {
        // violated dif?
        let mut keep = vec![];
        for (s, t) in p.difs.clone() {
            match st.dif_state(&s, &t) {
                Some(true) => return false,
                Some(false) => {}
                None => keep.push((s, t)),
            }
        }
        p.difs = keep;
        let mut actions: Vec<Value> = vec![];
        let mut fk = vec![];
        for (id, v, act) in p.freezes.clone() {
            if st.nonvar(&T::V(v)) {
                woken.push(id);
                actions.push(act);
            } else {
                fk.push((id, v, act));
            }
        }
        p.freezes = fk;
        let mut wk = vec![];
        for (id, c, act) in p.whens.clone() {
            if st.cond(&c) {
                woken.push(id);
                actions.push(act);
            } else {
                wk.push((id, c, act));
            }
        }
        p.whens = wk;
        let mut changed = false;
        for act in actions {
            if act.is_null() {
                continue;
            }
            if !st.unify(&T::V(act["v"].as_u64().unwrap_or(0) as usize % 3), &term_of(&act["t"])) {
                return false;
            }
            changed = true;
        }
        if !changed {
            return true;
        }
    }
}

fn canon_term(st: &Store) -> String {
    let t = [st.resolve(&T::V(0)), st.resolve(&T::V(1)), st.resolve(&T::V(2))];
    let mut names: BTreeMap<usize, usize> = BTreeMap::new();
    fn go(t: &T, names: &mut BTreeMap<usize, usize>) -> String {
        match t {
            T::V(i) => {
                let n = names.len();
                let k = *names.entry(*i).or_insert(n);
                format!("_{k}")
            }
            T::A(a) => a.clone(),
            T::F(x) => format!("f({})", go(x, names)),
            T::G(x, y) => format!("g({},{})", go(x, names), go(y, names)),
        }
    }
    let parts: Vec<String> = t.iter().map(|x| go(x, &mut names)).collect();
    format!("t({})", parts.join(","))
}

fn model(ops: &[(usize, Value)], probes: &[Value]) -> Expect {
    let mut st = Store::default();
    let mut p = Pending { difs: vec![], freezes: vec![], whens: vec![] };
    let mut ex = Expect { ok: true, wakes: vec![], bindings: String::new(), probes: vec![], invalid: false };
    for (id, op) in ops {
        let mut woken = vec![];
        let ok = match op["op"].as_str().unwrap_or("") {
            "dif" => {
                p.difs.push((term_of(&op["s"]), term_of(&op["t"])));
                settle(&mut st, &mut p, &mut woken)
            }
            "eq" => st.unify(&term_of(&op["s"]), &term_of(&op["t"])) && settle(&mut st, &mut p, &mut woken),
            "freeze" => {
                p.freezes.push((mark_id(op, *id), op["v"].as_u64().unwrap_or(0) as usize % 3, op["act"].clone()));
                settle(&mut st, &mut p, &mut woken)
            }
            "when" => {
                p.whens.push((mark_id(op, *id), op["cond"].clone(), op["act"].clone()));
                settle(&mut st, &mut p, &mut woken)
            }
            _ => true,
        };
        if st.cyclic {
            ex.invalid = true;
            return ex;
        }
        woken.sort();
        ex.wakes.push(woken);
        if !ok {
            ex.ok = false;
            return ex;
        }
    }
    ex.bindings = canon_term(&st);
    for pr in probes {
        let mut s2 = st.clone();
        let mut p2 = p.clone();
        let mut woken = vec![];
        let vals = pr.as_array().cloned().unwrap_or_default();
        let mut ok = true;
        for (i, v) in vals.iter().enumerate() {
            if v.is_null() {
                continue;
            }
            // list unification binds left to right; constraints wake after the whole
            // unification, so apply all equations, then settle once
            if !s2.unify(&T::V(i), &term_of(v)) {
                ok = false;
                break;
            }
        }
        if ok {
            ok = settle(&mut s2, &mut p2, &mut woken);
        }
        if s2.cyclic {
            ex.invalid = true;
            return ex;
        }
        woken.sort();
        // wake-ups of a failing probe depend on where the failure is noticed: not compared
        ex.probes.push((ok, if ok { woken } else { vec![] }));
    }
    ex
}

fn gen_term(rng: &mut Prng, depth: u32) -> Value {
    if depth == 0 || rng.chance(1, 2) {
        if rng.chance(3, 5) {
            json!({"v": rng.below(3)})
        } else {
            json!({"a": *rng.pick(&["a", "b"])})
        }
    } else if rng.chance(2, 3) {
        json!({"f": [gen_term(rng, depth - 1)]})
    } else {
        json!({"g": [gen_term(rng, depth - 1), gen_term(rng, depth - 1)]})
    }
}

fn gen_cond(rng: &mut Prng, depth: u32) -> Value {
    if depth == 0 || rng.chance(3, 5) {
        if rng.chance(1, 2) {
            json!({"c": "nonvar", "t": {"v": rng.below(3)}})
        } else {
            json!({"c": "ground", "t": gen_term(rng, 1)})
        }
    } else if rng.chance(1, 2) {
        json!({"c": "and", "l": gen_cond(rng, depth - 1), "r": gen_cond(rng, depth - 1)})
    } else {
        json!({"c": "or", "l": gen_cond(rng, depth - 1), "r": gen_cond(rng, depth - 1)})
    }
}

impl Check for C26 {
    fn id(&self) -> &'static str {
        "C26"
    }

    fn runs(&self, tier: Tier) -> u64 {
        match tier {
            Tier::Quick => 6_000,
            Tier::Thorough => 600_000,
        }
    }

    fn batch(&self) -> u64 {
        200
    }

    fn timeout_s(&self) -> f64 {
        30.0
    }

    fn prepare(&mut self, _oracle: Option<&Value>) {
        let mut m = Mach::new();
        let _ = m.all("use_module(library(when)).");
        self.m = Some(m);
    }

    fn gen(&mut self, rng: &mut Prng, idx: u64, tier: Tier) -> Value {
        // prefer cases the reference store accepts (no occurs-check situation)
        let mut last = Value::Null;
        for _ in 0..8 {
            let c = self.gen_once(rng, idx, tier);
            let ops = c["ops"].as_array().cloned().unwrap_or_default();
            let seq: Vec<(usize, Value)> = ops.iter().cloned().enumerate().collect();
            let probes = c["probes"].as_array().cloned().unwrap_or_default();
            let invalid = model(&seq, &probes).invalid;
            last = c;
            if !invalid {
                break;
            }
        }
        last
    }

    fn exec(&mut self, case: &Value) -> Outcome {
        self.exec_case(case)
    }

    fn shrink(&self, case: &Value) -> Vec<Value> {
        let mut out = vec![];
        let ops = case["ops"].as_array().cloned().unwrap_or_default();
        let orders = case["orders"].as_array().cloned().unwrap_or_default();
        let probes = case["probes"].as_array().cloned().unwrap_or_default();
        // fewer orders
        for o2 in super::shrink_list(&orders) {
            out.push(json!({"ops": ops, "orders": o2, "probes": probes}));
        }
        for p2 in super::shrink_list(&probes) {
            out.push(json!({"ops": ops, "orders": orders, "probes": p2}));
        }
        if !probes.is_empty() {
            out.push(json!({"ops": ops, "orders": orders, "probes": []}));
        }
        // drop an operation: remove index k from every order and renumber
        for k in 0..ops.len() {
            if ops.len() <= 1 {
                break;
            }
            let mut ops2 = ops.clone();
            ops2.remove(k);
            let orders2: Vec<Value> = orders
                .iter()
                .map(|o| {
                    Value::Array(
                        o.as_array()
                            .map(|a| a.iter().filter_map(|x| x.as_u64()).filter(|x| *x as usize != k).map(|x| json!(if x as usize > k { x - 1 } else { x })).collect())
                            .unwrap_or_default(),
                    )
                })
                .collect();
            out.push(json!({"ops": ops2, "orders": orders2, "probes": probes}));
        }
        out
    }

    fn describe(&self) -> Value {
        json!({
            "real": ["whole Machine: library(dif), library(freeze), library(when), library(atts), attributed_variables.{rs,pl} (verify_attributes dispatch, attr_var_init queue), unification with attributed variables"],
            "stub": ["the scheduler of posts and bindings (several orders of one multiset of operations, drawn from the seed, plus constraints-first and bindings-first orders)"],
            "rule": "multiset of 2..7 operations over variables A,B,C and acyclic terms over {a, b, f/1, g/2} of depth <= 2: dif(S,T), S = T (binding, aliasing, structure unification), freeze(V, mark), when(Cond, mark) with nonvar/ground conditions combined by , and ; (depth <= 2); 5..8 orders per multiset, each run as one conjunction with a position mark after every operation and followed by 2..5 probes (further bindings inside \\+ \\+); distinct = hash of the queries and answers; non-trivial = more than one order ran",
            "assumptions": [
                "cases whose equations need the occurs check (cyclic terms) are skipped",
                "the wake-ups of a failing conjunction or failing probe are not compared (where a failure is noticed depends on the order)",
                "no fault is injected for this property: the order of posts and bindings is the searched space"
            ],
        })
    }
}

impl C26 {
    fn gen_once(&mut self, rng: &mut Prng, _idx: u64, _tier: Tier) -> Value {
        let n = rng.range(2, 7);
        let mut ops = vec![];
        for _ in 0..n {
            let r = rng.below(100);
            let op = if r < 30 {
                json!({"op": "dif", "s": gen_term(rng, 2), "t": gen_term(rng, 2)})
            } else if r < 62 {
                // bindings, aliasing, structure unification
                let s = if rng.chance(3, 4) { json!({"v": rng.below(3)}) } else { gen_term(rng, 2) };
                json!({"op": "eq", "s": s, "t": gen_term(rng, 2)})
            } else if r < 82 {
                let act = if rng.chance(1, 3) { json!({"v": rng.below(3), "t": gen_term(rng, 1)}) } else { Value::Null };
                json!({"op": "freeze", "v": rng.below(3), "act": act})
            } else {
                let act = if rng.chance(1, 3) { json!({"v": rng.below(3), "t": gen_term(rng, 1)}) } else { Value::Null };
                json!({"op": "when", "cond": gen_cond(rng, 2), "act": act})
            };
            ops.push(op);
        }
        // one case in five posts a goal twice: the same goal term (same mark), on the same
        // variable/condition or on another variable that may get aliased to it
        let mut n = n;
        if rng.chance(1, 5) {
            let susp: Vec<usize> = (0..ops.len()).filter(|i| ops[*i]["op"] == "freeze" || ops[*i]["op"] == "when").collect();
            if !susp.is_empty() {
                let k = *rng.pick(&susp);
                let mut c = ops[k].clone();
                c["mid"] = json!(k);
                if c["op"] == "freeze" && rng.chance(1, 2) {
                    c["v"] = json!(rng.below(3));
                }
                ops.push(c);
                n += 1;
            }
        }
        // orders: permutations of 0..n (the first is the identity)
        let mut orders: Vec<Vec<u64>> = vec![(0..n).collect()];
        for _ in 0..rng.range(2, 5) {
            let mut p: Vec<u64> = (0..n).collect();
            for i in (1..p.len()).rev() {
                let j = rng.below(i as u64 + 1) as usize;
                p.swap(i, j);
            }
            orders.push(p);
        }
        // constraints first / bindings first
        let mut cf: Vec<u64> = (0..n).collect();
        cf.sort_by_key(|i| if ops[*i as usize]["op"] == "eq" { 1 } else { 0 });
        orders.push(cf.clone());
        cf.reverse();
        orders.push(cf);
        let mut probes = vec![];
        for _ in 0..rng.range(2, 5) {
            let pr: Vec<Value> = (0..3)
                .map(|_| match rng.below(5) {
                    0 | 1 => Value::Null,
                    2 => json!({"a": "a"}),
                    3 => json!({"a": "b"}),
                    _ => json!({"f": [{"a": *rng.pick(&["a", "b"])}]}),
                })
                .collect();
            probes.push(Value::Array(pr));
        }
        json!({"ops": ops, "orders": orders, "probes": probes})
    }

}

impl C26 {
    fn exec_case(&mut self, case: &Value) -> Outcome {
        let mut out = Outcome::default();
        let mut m = match self.m.take() {
            Some(m) if m.alive() => m,
            _ => {
                let mut m = Mach::new();
                let _ = m.all("use_module(library(when)).");
                m
            }
        };
        let ops = case["ops"].as_array().cloned().unwrap_or_default();
        let orders = case["orders"].as_array().cloned().unwrap_or_default();
        let probes = case["probes"].as_array().cloned().unwrap_or_default();
        let mut h = 0xcbf29ce484222325u64;
        let mut summary: Vec<String> = vec![];
        let mut first_ok: Option<(bool, String)> = None;

        for ord in orders.iter() {
            let idxs: Vec<usize> = ord.as_array().map(|a| a.iter().filter_map(|x| x.as_u64()).map(|x| x as usize).filter(|x| *x < ops.len()).collect()).unwrap_or_default();
            if idxs.is_empty() {
                continue;
            }
            let seq: Vec<(usize, Value)> = idxs.iter().map(|i| (*i, ops[*i].clone())).collect();
            let ex = model(&seq, &probes);
            if ex.invalid {
                out.bump("cases_needing_occurs_check_skipped", 1);
                self.m = Some(m);
                out.hash = h;
                return out;
            }
            // query text
            let mut parts: Vec<String> = vec![];
            for (k, (id, op)) in seq.iter().enumerate() {
                parts.push(op_text(op, *id));
                parts.push(format!("c26_mark(p({}))", k + 1));
            }
            let mut ptxt: Vec<String> = vec![];
            for (j, pr) in probes.iter().enumerate() {
                let vals: Vec<String> = pr.as_array().map(|a| a.iter().map(|v| if v.is_null() { "_".to_string() } else { term_text(&term_of(v)) }).collect()).unwrap_or_default();
                ptxt.push(format!("c26_probe({j}, [A,B,C], [{}])", vals.join(",")));
            }
            let q = format!(
                "c26_reset, ( {} -> R = ok, T = t(A,B,C), c26_mark(done){}{} ; R = failed ), c26_marks(Ms).",
                parts.join(", "),
                if ptxt.is_empty() { "" } else { ", " },
                ptxt.join(", ")
            );
            hash_bytes(&mut h, q.as_bytes());
            let t0 = vh::ticks();
            vh::set_tick_budget(t0 + 3_000_000);
            let r = m.all(&q);
            vh::set_tick_budget(u64::MAX);
            out.bump("sim_ticks", vh::ticks() - t0);
            out.bump("orders_run", 1);
            if let Some(p) = &r.panic {
                let class = if p.contains("TickBudgetExceeded") { "hang" } else { "panic" };
                out.violate(class, panic_key(p), format!("`{q}`: {p}"));
                out.hash = h;
                return out;
            }
            let b = match r.items.first() {
                Some(Ans::Bind(b)) => b.replace('"', ""),
                other => {
                    out.violate("wrong-outcome", "no-answer", format!("`{q}` gave {:?}", other.map(|a| a.text())));
                    self.m = Some(m);
                    out.hash = h;
                    return out;
                }
            };
            hash_bytes(&mut h, b.as_bytes());
            let bparts = super::c40::split_top(&b, ';');
            let get = |n: &str| bparts.iter().find_map(|p| p.strip_prefix(n).map(|x| x.to_string())).unwrap_or_default();
            let got_ok = get("R=") == "ok";
            let marks: Vec<String> = {
                let ms = get("Ms=");
                let inner = ms.trim().strip_prefix('[').and_then(|x| x.strip_suffix(']')).unwrap_or("").to_string();
                if inner.is_empty() {
                    vec![]
                } else {
                    super::c40::split_top(&inner, ',').into_iter().map(|x| x.trim().to_string()).collect()
                }
            };
            let ctx = format!("order {:?} of the operations\n `{q}`\n marks {:?}", idxs, marks);
            if got_ok != ex.ok {
                out.violate("order-sensitive", "success-differs", format!("{ctx}\n {} but the reference store says it {}", if got_ok { "succeeds" } else { "fails" }, if ex.ok { "succeeds" } else { "fails" }));
                break;
            }
            match &first_ok {
                None => first_ok = Some((got_ok, String::new())),
                Some((o, _)) if *o != got_ok => {
                    out.violate("order-sensitive", "success-differs-between-orders", ctx.clone());
                    break;
                }
                _ => {}
            }
            summary.push(format!("{:?}:{}", idxs, if got_ok { "ok" } else { "failed" }));
            if !got_ok {
                continue;
            }
            // bindings
            let got_t = canon_vars_numbered(&get("T="));
            if got_t != ex.bindings {
                out.violate("order-sensitive", "bindings-differ", format!("{ctx}\n t(A,B,C) = {got_t}, reference store {}", ex.bindings));
                break;
            }
            // wake-ups per segment
            let mut seg: Vec<usize> = vec![];
            let mut pos = 0usize;
            let mut seen: BTreeMap<usize, u32> = BTreeMap::new();
            let mut bad: Option<String> = None;
            let mut probe_seg: Vec<usize> = vec![];
            let mut in_probes = false;
            let mut probe_results: Vec<(bool, Vec<usize>)> = vec![];
            for mk in marks.iter() {
                if let Some(w) = mk.strip_prefix("w(").and_then(|x| x.strip_suffix(')')).and_then(|x| x.parse::<usize>().ok()) {
                    *seen.entry(w).or_insert(0) += 1;
                    if in_probes {
                        probe_seg.push(w);
                    } else {
                        seg.push(w);
                    }
                } else if mk.starts_with("p(") {
                    seg.sort();
                    let want = ex.wakes.get(pos).cloned().unwrap_or_default();
                    if seg != want && bad.is_none() {
                        bad = Some(format!("during operation {} (position {}) goals {:?} woke up, the reference store wakes {:?}", idxs.get(pos).cloned().unwrap_or(0), pos + 1, seg, want));
                    }
                    seg.clear();
                    pos += 1;
                } else if mk == "done" {
                    in_probes = true;
                } else if mk.starts_with("y(") || mk.starts_with("n(") {
                    probe_seg.sort();
                    probe_results.push((mk.starts_with("y("), if mk.starts_with("y(") { probe_seg.clone() } else { vec![] }));
                    probe_seg.clear();
                }
            }
            if let Some(b) = bad {
                out.violate("wake-up", "wrong-wake-up", format!("{ctx}\n {b}"));
                break;
            }
            // exactly once within the main conjunction (probes run inside \+ \+ and may wake a
            // goal again in another probe: counted per probe above)
            if probe_results != ex.probes {
                out.violate("residual-constraints", "probe-differs", format!("{ctx}\n probes (succeeds, goals woken) {:?}\n reference store {:?}", probe_results, ex.probes));
                break;
            }
            out.bump("orders_checked_against_store", 1);
            if ex.wakes.iter().any(|w| !w.is_empty()) {
                out.bump("orders_with_wake_ups", 1);
            }
        }
        if ops.iter().any(|o| o["op"] == "when" && cond_vars(&o["cond"]).len() >= 2) {
            // (these ran their goal once per variable before the repair recorded in
            // known_findings.json; they are checked strictly now)
            out.bump("cases_with_multi_variable_when_condition", 1);
        }
        out.nontrivial = orders.len() > 1;
        out.transcript = summary.join(" ");
        out.hash = h;
        self.m = Some(m);
        out
    }

}

/// `t(_123,a,_123)` -> `t(_0,a,_0)`
fn canon_vars_numbered(s: &str) -> String {
    let mut names: Vec<String> = vec![];
    let mut out = String::new();
    let cs: Vec<char> = s.chars().collect();
    let mut i = 0;
    while i < cs.len() {
        if (cs[i] == '_' || cs[i].is_ascii_uppercase()) && (i == 0 || !(cs[i - 1].is_alphanumeric() || cs[i - 1] == '_')) {
            let mut j = i + 1;
            while j < cs.len() && (cs[j].is_alphanumeric() || cs[j] == '_') {
                j += 1;
            }
            let name: String = cs[i..j].iter().collect();
            let k = match names.iter().position(|n| *n == name) {
                Some(k) => k,
                None => {
                    names.push(name);
                    names.len() - 1
                }
            };
            out.push_str(&format!("_{k}"));
            i = j;
        } else {
            out.push(cs[i]);
            i += 1;
        }
    }
    out
}
