//! C52 — random number predicates are in range and reproducible.
//!
//! Randomness is a source of nondeterminism the simulator owns: the machine's generator is
//! seeded only through `set_random(seed(S))`. A run is a history of random/1,
//! random_integer/3 and maybe/0 calls after one seed, executed (i) as one conjunction,
//! (ii) again on the same machine, (iii) on a second machine with a different history, and
//! (iv) as separate queries with unrelated work (and an injected interrupt in an unrelated
//! query) in between. Oracle: per call the range/failure/error conditions of the statement
//! (checked inside Prolog with exact integer arithmetic); per history: the value sequences of
//! (i)-(iv) are identical.

use super::{panic_key, Check, Outcome, Tier};
use crate::mach::{Ans, Mach};
use crate::prng::{hash_bytes, Prng};
use scryer_prolog::verif_hooks as vh;
use serde_json::{json, Value};

pub struct C52 {
    m1: Option<Mach>,
    m2: Option<Mach>,
}

impl C52 {
    pub fn new() -> Self {
        C52 { m1: None, m2: None }
    }
}

const ANCHORS: &[&str] = &[
    "0", "1", "-1", "2", "7", "100", "-100", "36028797018963967", "36028797018963968", "-36028797018963968", "-36028797018963969",
    "9223372036854775807", "9223372036854775808", "-9223372036854775808", "18446744073709551615", "18446744073709551616",
    "1000000000000000000000000000000", "-1000000000000000000000000000000", "340282366920938463463374607431768211456",
];

fn gen_int(rng: &mut Prng) -> String {
    let a = rng.pick(ANCHORS).to_string();
    match rng.below(4) {
        0 => a,
        1 => format!("{} + {}", a, rng.below(5)),
        2 => format!("{} - {}", a, rng.below(5)),
        _ => format!("{}", rng.below(50) as i64 - 10),
    }
}

fn gen_seed(rng: &mut Prng) -> String {
    match rng.below(6) {
        0 => rng.below(10).to_string(),
        1 => format!("-{}", rng.range(1, 1000)),
        2 => rng.pick(ANCHORS).to_string(),
        3 => rng.next().to_string(),
        4 => format!("{}{}", rng.next(), rng.next()),
        _ => format!("-{}{}", rng.next(), rng.next()),
    }
}

fn op_goal(op: &Value, i: usize) -> String {
    match op["op"].as_str().unwrap_or("") {
        "random" => format!("random(V{i}), ( V{i} >= 0.0, V{i} < 1.0, float(V{i}) -> K{i} = ok ; K{i} = out_of_range )"),
        "maybe" => format!("( maybe -> V{i} = t ; V{i} = f ), K{i} = ok"),
        "int" => {
            let l = op["l"].as_str().unwrap_or("0");
            let h = op["h"].as_str().unwrap_or("1");
            format!(
                "L{i} is {l}, H{i} is {h}, ( random_integer(L{i}, H{i}, V{i}) -> ( integer(V{i}), L{i} =< V{i}, V{i} < H{i} -> K{i} = ok ; K{i} = out_of_range ) ; V{i} = none, ( L{i} >= H{i} -> K{i} = ok ; K{i} = failed_on_nonempty_range ) )"
            )
        }
        "bad" => {
            let args = op["args"].as_str().unwrap_or("_, 1");
            let want = op["want"].as_str().unwrap_or("instantiation_error");
            format!("catch(( random_integer({args}, V{i}) -> K{i} = no_error ; K{i} = failed ), error(E{i}, _), ( V{i} = err, ( E{i} = {want} -> K{i} = ok ; K{i} = wrong_error(E{i}) ) ))")
        }
        _ => "true".into(),
    }
}

impl Check for C52 {
    fn id(&self) -> &'static str {
        "C52"
    }

    fn runs(&self, tier: Tier) -> u64 {
        match tier {
            Tier::Quick => 2_500,
            Tier::Thorough => 300_000,
        }
    }

    fn batch(&self) -> u64 {
        250
    }

    fn timeout_s(&self) -> f64 {
        30.0
    }

    fn prepare(&mut self, _oracle: Option<&Value>) {
        let mut m1 = Mach::new();
        let mut m2 = Mach::new();
        let _ = m1.all("use_module(library(random)).");
        let _ = m2.all("use_module(library(random)).");
        // different histories
        let _ = m2.all("findall(X, between(1, 50, X), L), length(L, N).");
        self.m1 = Some(m1);
        self.m2 = Some(m2);
    }

    fn gen(&mut self, rng: &mut Prng, _idx: u64, _tier: Tier) -> Value {
        let n = rng.range(1, 12);
        let mut ops = vec![];
        for _ in 0..n {
            let r = rng.below(20);
            let op = if r < 4 {
                json!({"op": "random"})
            } else if r < 7 {
                json!({"op": "maybe"})
            } else if r < 18 {
                let l = gen_int(rng);
                let h = match rng.below(5) {
                    0 => format!("{} + 1", l),
                    1 => format!("{} + {}", l, rng.range(2, 4)),
                    2 => l.clone(),
                    _ => gen_int(rng),
                };
                json!({"op": "int", "l": l, "h": h})
            } else {
                let (args, want) = *rng.pick(&[
                    ("_, 10", "instantiation_error"),
                    ("1, _", "instantiation_error"),
                    ("a, 10", "type_error(integer, a)"),
                    ("1, 2.5", "type_error(integer, 2.5)"),
                    ("1, foo(x)", "type_error(integer, foo(x))"),
                ]);
                json!({"op": "bad", "args": args, "want": want})
            };
            ops.push(op);
        }
        json!({"seed": gen_seed(rng), "ops": ops, "interrupt_permille": rng.below(1000)})
    }

    fn exec(&mut self, case: &Value) -> Outcome {
        let mut out = Outcome::default();
        let mk = || {
            let mut m = Mach::new();
            let _ = m.all("use_module(library(random)).");
            m
        };
        let mut m1 = match self.m1.take() {
            Some(m) if m.alive() => m,
            _ => mk(),
        };
        let mut m2 = match self.m2.take() {
            Some(m) if m.alive() => m,
            _ => mk(),
        };
        let seed = case["seed"].as_str().unwrap_or("0");
        let ops = case["ops"].as_array().cloned().unwrap_or_default();
        let goals: Vec<String> = ops.iter().enumerate().map(|(i, o)| op_goal(o, i)).collect();
        let vars: Vec<String> = (0..ops.len()).map(|i| format!("V{i}-K{i}")).collect();
        let conj = format!("set_random(seed({seed})), {}, Res = [{}].", goals.join(", "), vars.join(", "));
        let mut h = 0xcbf29ce484222325u64;
        hash_bytes(&mut h, conj.as_bytes());

        let res_of = |m: &mut Mach, q: &str| -> Result<String, (String, String, String)> {
            let r = m.all(q);
            if let Some(p) = &r.panic {
                return Err(("panic".into(), panic_key(p), format!("`{q}`: {p}")));
            }
            match r.items.first() {
                Some(Ans::Bind(b)) => Ok(super::c40::split_top(b, ';').into_iter().find_map(|p| p.strip_prefix("Res=").map(|x| x.to_string())).unwrap_or_default()),
                _ => Err(("wrong-outcome".into(), "history-did-not-succeed".into(), format!("`{q}` gave [{}]", r.text()))),
            }
        };

        let run = (|| -> Result<(), (String, String, String)> {
            // (i) one conjunction
            let a = res_of(&mut m1, &conj)?;
            hash_bytes(&mut h, a.as_bytes());
            if a.contains("out_of_range") || a.contains("failed_on_nonempty_range") || a.contains("wrong_error") || a.contains("no_error") || a.contains("\"failed\"") {
                return Err(("range-or-error".into(), "range-or-error".into(), format!("`{conj}` => {a}")));
            }
            out.bump("calls", ops.len() as u64);
            // (ii) again on the same machine
            let b = res_of(&mut m1, &conj)?;
            if a != b {
                return Err(("not-reproducible".into(), "same-machine".into(), format!("seed {seed}: first {a}, second {b}")));
            }
            // (iii) another machine with a different history
            let c = res_of(&mut m2, &conj)?;
            if a != c {
                return Err(("not-reproducible".into(), "other-machine".into(), format!("seed {seed}: machine 1 {a}, machine 2 {c}")));
            }
            // (iv) separate queries with unrelated work and an injected interrupt in between
            let r0 = m2.all(&format!("set_random(seed({seed}))."));
            if let Some(p) = &r0.panic {
                return Err(("panic".into(), panic_key(p), format!("set_random(seed({seed})): {p}")));
            }
            let mut parts = vec![];
            for (i, g) in goals.iter().enumerate() {
                let q = format!("{}, Res = [V{i}-K{i}].", g);
                let r = res_of(&mut m2, &q)?;
                parts.push(r.trim_start_matches('[').trim_end_matches(']').to_string());
                // unrelated work, interrupted at some instruction
                let n = 1 + 3000 * case["interrupt_permille"].as_u64().unwrap_or(0) / 1000;
                let w = m2.run_with("findall(X-Y, (member(X, [1,2,3]), member(Y, [a,b])), L), sort(L, S).", usize::MAX, |k| {
                    if k == 0 && i % 2 == 0 {
                        vh::interrupt_at(vh::ticks() + n);
                    }
                });
                if vh::interrupt_fired_at() != 0 {
                    out.bump("fault.interrupt_fired_between_calls", 1);
                    out.nontrivial = true;
                }
                vh::interrupt_at(0);
                vh::clear_global_interrupt();
                if let Some(p) = &w.panic {
                    return Err(("panic".into(), panic_key(p), format!("unrelated work: {p}")));
                }
            }
            let d = format!("[{}]", parts.join(","));
            if a != d {
                return Err(("not-reproducible".into(), "split-queries".into(), format!("seed {seed}: one conjunction {a}, separate queries with unrelated work in between {d}")));
            }
            Ok(())
        })();
        out.hash = h;
        out.transcript = conj.clone();
        match run {
            Ok(()) => {
                self.m1 = Some(m1);
                self.m2 = Some(m2);
            }
            Err((class, key, detail)) => {
                out.violate(&class, key, detail);
            }
        }
        out
    }

    fn shrink(&self, case: &Value) -> Vec<Value> {
        let mut out = vec![];
        let ops = case["ops"].as_array().cloned().unwrap_or_default();
        for o2 in super::shrink_list(&ops) {
            let mut c = case.clone();
            c["ops"] = json!(o2);
            out.push(c);
        }
        if case["seed"].as_str() != Some("0") {
            let mut c = case.clone();
            c["seed"] = json!("0");
            out.push(c);
        }
        out
    }

    fn describe(&self) -> Value {
        json!({
            "real": ["whole Machine: library(random), '$random_integer', '$maybe', '$set_seed', Machine.rng"],
            "stub": ["entropy: the generator is only ever seeded through set_random(seed(S)) inside the run", "interrupt source in the unrelated work between calls"],
            "rule": "seed over the whole integer range (0, negative, around 2^55/2^63/2^64, > 2^128) x history of <=12 calls (random/1, maybe/0, random_integer/3 with fixnum/bignum/mixed, empty and width-1..3 ranges, ill-typed bounds) executed as one conjunction, repeated, on a second machine, and split over queries with unrelated interrupted work; distinct = hash of the history and its values; non-trivial = an interrupt fired between calls",
            "assumptions": ["two machines in two OS threads are not run concurrently here: the generator is a per-Machine field with no shared state"],
        })
    }
}
