//! Check trait, outcome protocol and registry.

use crate::prng::Prng;
use serde_json::{json, Value};
use std::collections::BTreeMap;

pub mod c09;
pub mod c12;
pub mod c18;
pub mod c19;
pub mod c26;
pub mod c28;
pub mod c30;
pub mod c31;
pub mod c32;
pub mod c33;
pub mod c40;
pub mod c47;
pub mod c48;
pub mod c52;

#[derive(Clone, Copy, Debug, PartialEq, Eq)]
pub enum Tier {
    Quick,
    Thorough,
}

#[derive(Clone, Debug)]
pub struct Violation {
    /// short class, e.g. "panic", "wrong-answer", "stale-exception"
    pub class: String,
    /// site / identity used to match known findings (stable across line drift where possible)
    pub key: String,
    pub detail: String,
}

#[derive(Clone, Debug, Default)]
pub struct Outcome {
    pub violations: Vec<Violation>,
    /// hash of the canonical transcript of the run
    pub hash: u64,
    /// at least one fault fired / non-trivial schedule decision was taken
    pub nontrivial: bool,
    /// counters: fault kinds fired, reach probes, simulated ticks ...
    pub stats: BTreeMap<String, u64>,
    /// short human-readable transcript (kept for samples)
    pub transcript: String,
}

impl Outcome {
    pub fn bump(&mut self, k: &str, n: u64) {
        *self.stats.entry(k.to_string()).or_insert(0) += n;
    }
    pub fn violate(&mut self, class: &str, key: impl Into<String>, detail: impl Into<String>) {
        self.violations.push(Violation {
            class: class.to_string(),
            key: key.into(),
            detail: detail.into(),
        });
    }
    pub fn to_json(&self) -> Value {
        json!({
            "hash": format!("{:016x}", self.hash),
            "nontrivial": self.nontrivial,
            "stats": self.stats,
            "violations": self.violations.iter().map(|v| json!({"class": v.class, "key": v.key, "detail": v.detail})).collect::<Vec<_>>(),
        })
    }
}

pub trait Check {
    fn id(&self) -> &'static str;
    /// number of runs of a tier
    fn runs(&self, tier: Tier) -> u64;
    /// Build the explicit case description of run `idx` (everything drawn from `rng`).
    fn gen(&mut self, rng: &mut Prng, idx: u64, tier: Tier) -> Value;
    /// Execute a case.
    fn exec(&mut self, case: &Value) -> Outcome;
    /// Smaller variants of a case, most aggressive first.
    fn shrink(&self, _case: &Value) -> Vec<Value> {
        vec![]
    }
    /// Static description for evidence.
    fn describe(&self) -> Value;
    /// One-time preparation in the fork-server parent (pristine image). `oracle` is the value
    /// a previous `make_oracle` returned (reference answers computed once per batch of workers).
    fn prepare(&mut self, _oracle: Option<&Value>) {}
    /// Compute reference values once (fresh-machine answers etc.).
    fn make_oracle(&mut self) -> Value {
        Value::Null
    }
    /// Runs per forked child (1 = fresh image per run).
    fn batch(&self) -> u64 {
        1
    }
    /// Watchdog per run, seconds.
    fn timeout_s(&self) -> f64 {
        20.0
    }
}

pub fn make(id: &str) -> Option<Box<dyn Check>> {
    match id {
        "C09" => Some(Box::new(c09::C09::new())),
        "C12" => Some(Box::new(c12::C12::new())),
        "C18" => Some(Box::new(c18::C18::new())),
        "C19" => Some(Box::new(c19::C19::new())),
        "C26" => Some(Box::new(c26::C26::new())),
        "C28" => Some(Box::new(c28::C28::new())),
        "C30" => Some(Box::new(c30::C30::new())),
        "C31" => Some(Box::new(c31::C31::new())),
        "C32" => Some(Box::new(c32::C32::new())),
        "C33" => Some(Box::new(c33::C33::new())),
        "C40" => Some(Box::new(c40::C40::new())),
        "C47" => Some(Box::new(c47::C47::new())),
        "C48" => Some(Box::new(c48::C48::new())),
        "C52" => Some(Box::new(c52::C52::new())),
        _ => None,
    }
}

pub const ALL: &[&str] = &["C28"];

/// Generic list shrinker: remove chunks (ddmin style), then single elements.
pub fn shrink_list(items: &[Value]) -> Vec<Vec<Value>> {
    let n = items.len();
    let mut out = vec![];
    if n <= 1 {
        return out;
    }
    let mut chunk = n / 2;
    while chunk >= 1 {
        let mut start = 0;
        while start < n {
            let end = (start + chunk).min(n);
            let mut v = items[..start].to_vec();
            v.extend_from_slice(&items[end..]);
            if !v.is_empty() {
                out.push(v);
            }
            start = end;
        }
        if chunk == 1 {
            break;
        }
        chunk /= 2;
    }
    out
}

/// Key of a panic: file + message without digits (tolerant to line drift).
pub fn panic_key(p: &str) -> String {
    // file:line: msg  -> file: msg-without-digits (line drift tolerant)
    let mut parts = p.splitn(3, ':');
    let file = parts.next().unwrap_or("");
    let _line = parts.next();
    let msg = parts.next().unwrap_or("");
    let msg: String = msg.chars().filter(|c| !c.is_ascii_digit()).take(80).collect();
    format!("panic:{}:{}", file.trim_start_matches("/repo/"), msg.trim())
}

